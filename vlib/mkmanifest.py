#!/usr/bin/env python3
"""Regenerates /verif/MANIFEST.json from the check table."""
import json
import os
import sys

sys.path.insert(0, os.path.dirname(os.path.abspath(__file__)))
from checks import CHECKS, MANIFEST_TEXT, NOT_APPLICABLE  # noqa: E402

VERIF = os.path.dirname(os.path.dirname(os.path.abspath(__file__)))
TECH = "SMT-based bounded symbolic execution of the real Go code (go/ssa interpreted over bit-vector terms; z3, cvc5 integer encoding for arithmetic kernels); counterexamples replayed against the real build"

m = {
    "version": 1,
    "setup_cmd": "./verify setup",
    "hooks": {
        "guard": "verif",
        "enable": "harnesses are overlay files (//go:build verif) injected with go/packages Overlay (engine) and `go test -overlay -tags verif` (native replay); no hook was needed in /repo's source",
        "baseline_off_cmd": "cd /repo && go test -mod=mod -vet=off -count=1 -timeout 25m ./...",
        "source_commits": [],
        "add_only": True,
    },
    "engines": [{
        "name": "symgo", "path": "/verif/engine", "serves_properties": sorted(CHECKS),
        "kind_free_text": "bounded symbolic executor for Go written for this task: loads /repo's working tree with go/packages, builds go/ssa, "
                          "interprets the SSA of the real functions over SMT terms (bit-vectors with Go's wrap-around semantics), forks at symbolic branches, "
                          "decides every branch and assertion with z3 (cvc5 --solve-bv-as-int for division/multiplication kernels), models goroutines, channels, "
                          "mutexes, defer/panic/recover; ideal-hash and ideal-signature oracles; harness-source stubs for the environment",
    }],
    "checks": [],
    "not_applicable": [],
    "notes": "fix commits in /repo: see known_findings.json (entries with status fixed). Exit codes of ./verify: 0 pass, 1 reproduced violation, 2 inconclusive (engine limit, solver unknown, unwinding bound, vacuous harness, spurious counterexample).",
}
for pid in sorted(CHECKS):
    t = MANIFEST_TEXT[pid]
    m["checks"].append({
        "property_id": pid,
        "quick_cmd": "./verify %s quick" % pid,
        "thorough_cmd": "./verify %s thorough" % pid,
        "evidence_file": "/verif/evidence/%s.json" % pid,
        "replay_cmd_template": "./verify replay {path}",
        "engine": "symgo",
        "level_claimed": {"category": CHECKS[pid].get("level", "model_checking"), "text": t["text"], "design_ref": "DESIGN.md §5 " + pid},
        "level_note": t["note"],
        "technique": t.get("technique", TECH),
    })
for pid in ["C%02d" % i for i in range(1, 21)]:
    if pid not in CHECKS:
        m["not_applicable"].append({"property_id": pid, "reason": NOT_APPLICABLE.get(pid, "check not built yet (in progress); to be decided by the symgo engine")})
json.dump(m, open(os.path.join(VERIF, "MANIFEST.json"), "w"), indent=1)
print("MANIFEST.json: %d checks, %d not applicable" % (len(m["checks"]), len(m["not_applicable"])))
