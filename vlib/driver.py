"""Driver for the solver-based checks: builds symgo jobs from /repo's current working tree,
runs them, replays counterexamples against the native build, matches known findings and writes
the evidence file. See /verif/DESIGN.md."""
import hashlib
import json
import os
import random
import re
import shutil
import subprocess
import sys
import time

VERIF = os.path.dirname(os.path.dirname(os.path.abspath(__file__)))
REPO = os.environ.get("VERIF_REPO", "/repo")
GOBIN = "/opt/veriftools/go1.26.8/bin"
MODULE = "filippo.io/sunlight"


def goenv():
    env = dict(os.environ)
    env["PATH"] = GOBIN + ":" + env.get("PATH", "")
    env["GOFLAGS"] = "-mod=mod"
    env["GOPROXY"] = "off"
    env["GOTOOLCHAIN"] = "local"
    env.pop("GOSUMDB", None)
    return env


def build_engine(force=False):
    out = os.path.join(VERIF, "bin", "symgo")
    src = os.path.join(VERIF, "engine")
    newest = max(os.path.getmtime(os.path.join(src, f)) for f in os.listdir(src))
    if not force and os.path.exists(out) and os.path.getmtime(out) >= newest:
        return out
    os.makedirs(os.path.dirname(out), exist_ok=True)
    r = subprocess.run(["go", "build", "-o", out, "."], cwd=src, env=goenv(), capture_output=True, text=True)
    if r.returncode != 0:
        sys.stderr.write(r.stdout + r.stderr)
        raise SystemExit(3)
    return out


def pkg_dir(pkg):
    rel = pkg[len(MODULE):].lstrip("/")
    return os.path.join(REPO, rel) if rel else REPO


def harness_funcs(paths):
    """Parses `func VerifXxx(a, b int)` entry points of harness files: name -> arity."""
    out = {}
    for p in paths:
        src = open(p).read()
        for m in re.finditer(r"^func (Verif\w+)\(([^)]*)\)", src, re.M):
            params = m.group(2).strip()
            n = 0
            if params:
                for part in params.split(","):
                    n += 1
            out[m.group(1)] = n
    return out


def prepare_overlay(job, bdir):
    """Generates the per-package API file and replay test, returns (engine overlay, native overlay)."""
    os.makedirs(bdir, exist_ok=True)
    pdir = pkg_dir(job["pkg"])
    hfiles = [os.path.join(VERIF, "harness", h) for h in job["harness"]]
    api = open(os.path.join(VERIF, "harness/common/zz_verif_api.go.tmpl")).read().replace("PKGNAME", job["pkgname"])
    api_path = os.path.join(bdir, "zz_verif_api.go")
    open(api_path, "w").write(api)
    ov = {os.path.join(pdir, "zz_verif_api.go"): api_path}
    for h in hfiles:
        ov[os.path.join(pdir, os.path.basename(h))] = h
    funcs = harness_funcs(hfiles)
    entries = []
    for name, n in sorted(funcs.items()):
        args = ", ".join("a[%d]" % i for i in range(n))
        entries.append('\t"%s": func(a []int) { %s(%s) },' % (name, name, args))
    test = open(os.path.join(VERIF, "harness/common/zz_verif_replay_test.go.tmpl")).read()
    test = test.replace("PKGNAME", job["pkgname"]).replace("ENTRIES", "\n".join(entries))
    test_path = os.path.join(bdir, "zz_verif_replay_test.go")
    open(test_path, "w").write(test)
    nov = dict(ov)
    nov[os.path.join(pdir, "zz_verif_replay_test.go")] = test_path
    return ov, nov


def run_symgo(job, cases, bdir, tag, workers=16, timeout_ms=60000, solver="z3", wall_timeout=None):
    ov, _ = prepare_overlay(job, bdir)
    spec = {"dir": REPO, "pkg": job["pkg"], "tags": "verif", "overlay": ov, "workers": workers,
            "solver": solver, "timeout_ms": timeout_ms, "cases": cases}
    if job.get("max_steps"):
        spec["max_steps"] = job["max_steps"]
    jp = os.path.join(bdir, "job-%s.json" % tag)
    op = os.path.join(bdir, "out-%s.json" % tag)
    json.dump(spec, open(jp, "w"), indent=1)
    if os.path.exists(op):
        os.remove(op)
    eng = build_engine()
    t0 = time.time()
    try:
        r = subprocess.run([eng, "-job", jp, "-out", op], env=goenv(), capture_output=True, text=True, timeout=wall_timeout)
    except subprocess.TimeoutExpired:
        return {"error": "symgo wall-clock timeout after %ss" % wall_timeout, "cases": []}, ""
    log = r.stderr
    if not os.path.exists(op):
        return {"error": "symgo failed: " + (r.stderr[-2000:] or r.stdout[-2000:]), "cases": []}, log
    res = json.load(open(op))
    res["wall_s"] = time.time() - t0
    return res, log


def native_replay(job, runs, bdir, tag, timeout=180):
    """Runs the harness natively (real build, `go test -overlay`) with recorded nondet values.
    Returns list of (outcome, reach) per run, or None entries when the run did not report."""
    _, nov = prepare_overlay(job, bdir)
    ovp = os.path.join(bdir, "overlay-%s.json" % tag)
    json.dump({"Replace": nov}, open(ovp, "w"))
    rp = os.path.join(bdir, "replay-%s.json" % tag)
    json.dump({"runs": runs}, open(rp, "w"))
    env = goenv()
    env["VERIF_REPLAY"] = rp
    cmd = ["go", "test", "-tags", "verif", "-vet=off", "-count=1", "-v", "-run", "^TestVerifReplay$", "-overlay", ovp,
           "-timeout", "%ds" % timeout, job["pkg"]]
    try:
        r = subprocess.run(cmd, cwd=REPO, env=env, capture_output=True, text=True, timeout=timeout + 300)
        out = r.stdout + r.stderr
    except subprocess.TimeoutExpired as e:
        out = (e.stdout or b"").decode() if isinstance(e.stdout, bytes) else (e.stdout or "")
        out += "\nDRIVER-TIMEOUT"
    res = [None] * len(runs)
    for m in re.finditer(r"^VERIF-REPLAY (\d+) OUTCOME (.*)$", out, re.M):
        res[int(m.group(1))] = [m.group(2).strip(), None]
    for m in re.finditer(r"^VERIF-REPLAY (\d+) REACH (.*)$", out, re.M):
        i = int(m.group(1))
        if res[i] is not None:
            try:
                res[i][1] = json.loads(m.group(2)) or []
            except Exception:
                res[i][1] = None
    timed_out = "test timed out" in out or "DRIVER-TIMEOUT" in out
    return res, timed_out, out


def rand_values(rng, nondets):
    vals = {}
    for nv in nondets:
        w = nv["w"]
        if w == 0:
            vals[nv["name"]] = rng.randint(0, 1)
        else:
            # bias towards small values so that length fields are plausible
            if rng.random() < 0.5:
                vals[nv["name"]] = rng.randint(0, min((1 << w) - 1, 3))
            else:
                vals[nv["name"]] = rng.getrandbits(w)
    return vals


def load_known():
    p = os.path.join(VERIF, "known_findings.json")
    if not os.path.exists(p):
        return []
    return json.load(open(p)).get("findings", [])


def match_known(pid, func, args, v, known):
    for k in known:
        if k.get("property") != pid or k.get("status") != "open":
            continue
        m = k.get("match", {})
        if m.get("func") and m["func"] != func:
            continue
        if m.get("kind") and m["kind"] != v.get("kind"):
            continue
        if m.get("msg_contains") and m["msg_contains"] not in (v.get("msg") or ""):
            continue
        if m.get("where_contains") and m["where_contains"] not in (v.get("where") or ""):
            continue
        if "args" in m and list(m["args"]) != list(args):
            continue
        return k
    return None


def run_check(pid, tier, check):
    """check: dict with jobs (list), level, assumptions, bounds text...; returns exit code."""
    t0 = time.time()
    seed = int(os.environ.get("VERIF_SEED", "1") or "1")
    rng = random.Random(seed)
    bdir = os.path.join(VERIF, "build", pid)
    if os.path.isdir(bdir):
        shutil.rmtree(bdir)
    os.makedirs(bdir, exist_ok=True)
    os.makedirs(os.path.join(VERIF, "replays"), exist_ok=True)
    os.makedirs(os.path.join(VERIF, "evidence"), exist_ok=True)
    known = load_known()
    cov = {"states": 0, "transitions": 0, "traces_validated_against_impl": 0, "samples": [], "evaluations": 0,
           "distinct_nontrivial": 0, "solver_queries": 0, "solver_time_s": 0.0, "cases": [], "functions_encoded": [],
           "dependency_functions_executed": 0, "stubs": [], "cut_packages": [], "intrinsics_used": [], "approximations": [],
           "ssa_instructions": 0, "assertions_checked": 0,
           "rule": "one evaluation = one feasible execution path of the harness through the real SSA; non-trivial = the path "
                   "took at least one branch decided by the solver on symbolic data; "
                   "paths are distinct by construction (their path conditions are pairwise disjoint)",
           "bounds": check.get("bounds", {}).get(tier, check.get("bounds", {})),
           "reach_tags": {}, "inconclusive": [], "exhaustive": False}
    violations = []      # reproduced, unknown to known_findings
    known_hits = []
    inconclusive = []
    lines = []
    fns_repo, fns_dep = set(), set()
    for ji, job in enumerate(check["jobs"]):
        cases = [c for c in job["cases"] if tier in c.get("tiers", ["quick", "thorough"])]
        only = os.environ.get("VERIF_ONLY")  # development aid: substring filter on case names (not used by registered commands)
        if only:
            cases = [c for c in cases if only in c["name"]]
        if os.environ.get("VERIF_ONLY_T"):  # development aid: only the cases that the thorough tier adds to the quick tier
            cases = [c for c in cases if "quick" not in c.get("tiers", ["quick", "thorough"])]
        if not cases:
            continue
        ecases = []
        for c in cases:
            ec = {"name": c["name"], "func": c["func"], "args": c.get("args", []), "expect_reach": c.get("reach", [])}
            for k in ("unwind", "max_paths", "twin", "unwind_is_violation"):
                if k in c:
                    ec[k] = c[k]
            # wall-clock budget per case: a case that exceeds it is inconclusive, the other cases still report
            ec["wall_s"] = c.get("wall_s", {"quick": 1800, "thorough": 3 * 3600}[tier])
            ecases.append(ec)
        res, log = run_symgo(job, ecases, bdir, "j%d" % ji, workers=int(os.environ.get("VERIF_WORKERS", "16")),
                             timeout_ms=job.get("timeout_ms", {"quick": 60000, "thorough": 300000}[tier]),
                             wall_timeout=job.get("wall_timeout", {"quick": 3600, "thorough": 6 * 3600}[tier]))
        if res.get("error"):
            inconclusive.append("job %d: %s" % (ji, res["error"]))
            continue
        fns_repo.update(res.get("functions_repo") or [])
        fns_dep.update(res.get("functions_dep") or [])
        cov["stubs"] = sorted(set(cov["stubs"]) | set(res.get("stubs") or []))
        cov["cut_packages"] = sorted(set(cov["cut_packages"]) | set(res.get("cut_packages") or []))
        cov["intrinsics_used"] = sorted(set(cov["intrinsics_used"]) | set(res.get("intrinsics_used") or []))
        cov["approximations"] = sorted(set(cov["approximations"]) | set(res.get("approximations") or []))
        selftest_runs = []
        for c, cr in zip(cases, res["cases"]):
            cov["states"] += cr["paths"]
            cov["evaluations"] += cr["paths"]
            cov["transitions"] += cr["symbolic_branches"]
            cov["distinct_nontrivial"] += cr["nontrivial_paths"]
            cov["solver_queries"] += cr["solver_queries"]
            cov["solver_time_s"] += cr["solver_time_s"]
            cov["ssa_instructions"] += cr["ssa_instructions"]
            cov["assertions_checked"] += cr["assertions_checked"]
            for k, v in (cr.get("reach") or {}).items():
                cov["reach_tags"][c["name"] + ":" + k] = v
            cov["cases"].append({"name": cr["name"], "func": cr["func"], "args": cr["args"], "verdict": cr["verdict"],
                                 "paths": cr["paths"], "by_status": cr["paths_by_status"], "queries": cr["solver_queries"],
                                 "solver_s": round(cr["solver_time_s"], 2), "wall_s": round(cr["wall_s"], 2),
                                 "max_query_s": round(cr.get("max_query_s", 0), 2)})
            for s in (cr.get("samples") or [])[:2]:
                if len(cov["samples"]) < 12:
                    cov["samples"].append({"case": cr["name"], "func": cr["func"], "args": cr["args"], "status": s["status"],
                                           "reach": s.get("reach"), "nondets": {n["name"]: n["v"] for n in (s.get("nondets") or [])[:48]},
                                           "trace": (s.get("trace") or [])[:20]})
            for msg in cr.get("inconclusive") or []:
                inconclusive.append("%s: %s" % (cr["name"], msg))
            for tagm in cr.get("missing_reach") or []:
                inconclusive.append("%s: reach tag %s not witnessed (vacuous harness?)" % (cr["name"], tagm))
            # counterexamples
            seen = set()
            for v in cr.get("violations") or []:
                key = (v.get("kind"), v.get("msg"))
                if key in seen:
                    continue
                seen.add(key)
                vals = {n["name"]: n["v"] for n in (v.get("nondets") or [])}
                digest = hashlib.sha256(json.dumps([cr["func"], cr["args"], v.get("kind"), v.get("msg"), vals], sort_keys=True).encode()).hexdigest()[:12]
                rpath = os.path.join(VERIF, "replays", "%s-%s.json" % (pid, digest))
                rec = {"property": pid, "job": ji, "func": cr["func"], "args": cr["args"], "values": vals, "kind": v.get("kind"),
                       "msg": v.get("msg"), "where": v.get("where"), "trace": v.get("trace")}
                if c.get("confirm_native"):
                    rec["confirm_native"] = c["confirm_native"]
                json.dump(rec, open(rpath, "w"), indent=1)
                ok, how = confirm(job, rec, bdir, digest)
                rec["replay"] = how
                json.dump(rec, open(rpath, "w"), indent=1)
                if not ok:
                    inconclusive.append("%s: SPURIOUS counterexample (%s): %s — encoding or stub is wrong" % (cr["name"], how, v.get("msg")))
                    lines.append("SPURIOUS property=%s case=%s replay=%s (%s)" % (pid, cr["name"], rpath, how))
                    continue
                cov["traces_validated_against_impl"] += 1
                k = match_known(pid, cr["func"], cr["args"], v, known)
                if k:
                    known_hits.append(k)
                    lines.append("KNOWN-FINDING: property=%s %s" % (pid, k.get("what", "")))
                else:
                    violations.append(rec)
                    lines.append("VIOLATION property=%s replay=%s" % (pid, rpath))
                    lines.append("  %s: %s [%s] %s" % (cr["name"], v.get("msg"), how, v.get("where")))
            # selftest vectors for translator validation
            if c.get("selftest") and cr.get("samples"):
                nd = None
                for s in cr["samples"]:
                    if s.get("nondets"):
                        nd = s["nondets"]
                        break
                k = {"quick": 2, "thorough": 6}[tier]
                if nd:
                    # one solver-produced assignment of a passing path plus random assignments
                    selftest_runs.append({"func": cr["func"], "args": cr["args"], "values": {n["name"]: n["v"] for n in nd}})
                    for _ in range(k):
                        selftest_runs.append({"func": cr["func"], "args": cr["args"], "values": rand_values(rng, nd)})
                else:
                    selftest_runs.append({"func": cr["func"], "args": cr["args"], "values": {}})
        if selftest_runs and job.get("native", True):
            ok_n, bad = selftest(job, selftest_runs, bdir, "j%d" % ji)
            cov["traces_validated_against_impl"] += ok_n
            for b in bad:
                inconclusive.append("selftest mismatch (interpreter vs native build): " + b)
    cov["functions_encoded"] = sorted(fns_repo)
    cov["dependency_functions_executed"] = len(fns_dep)
    cov["dependency_functions_sample"] = sorted(fns_dep)[:40]
    cov["inconclusive"] = inconclusive
    cov["solver_time_s"] = round(cov["solver_time_s"], 2)
    cov["known_findings_hit"] = [k.get("id") for k in known_hits]
    if not cov["samples"]:
        cov["samples"] = [{"note": "no passing path sample available"}]
    ev = {"property_id": pid, "tier": tier, "seed": seed, "level": check.get("level", "model_checking"), "coverage": cov,
          "assumptions": check.get("assumptions", []), "wall_s": round(time.time() - t0, 2), "violations": len(violations)}
    if ev["level"] == "other":
        cov["explanation"] = check.get("explanation", "")
    json.dump(ev, open(os.path.join(VERIF, "evidence", pid + ".json"), "w"), indent=1)
    for l in lines:
        print(l)
    if violations:
        print("RESULT property=%s tier=%s violations=%d" % (pid, tier, len(violations)))
        return 1
    if inconclusive:
        for m in inconclusive[:30]:
            print("INCONCLUSIVE property=%s %s" % (pid, m))
        return 2
    print("OK property=%s tier=%s paths=%d queries=%d solver_s=%.1f wall_s=%.1f known_findings=%d" % (
        pid, tier, cov["states"], cov["solver_queries"], cov["solver_time_s"], ev["wall_s"], len(known_hits)))
    return 0


def confirm(job, rec, bdir, digest):
    """Replays a counterexample against the real code. Native build when the harness can run natively,
    otherwise the interpreter in concrete mode (the real SSA with every nondet fixed)."""
    if rec.get("confirm_native"):
        # a dedicated native scenario on the real environment (real file system, real libraries)
        cn = rec["confirm_native"]
        res, timed_out, out = native_replay(job, [{"func": cn["func"], "args": cn.get("args", []), "values": {}}], bdir, "cn-" + digest,
                                            timeout=cn.get("timeout", 20))
        r = res[0]
        if r is None:
            if timed_out and rec["kind"] == "nontermination":
                return True, "native run of %s%s on the real file system did not terminate within %ss (reproduced)" % (cn["func"], cn.get("args", []), cn.get("timeout", 20))
            return False, "native confirmation produced no outcome: " + out[-400:].replace("\n", " | ")
        if r[0].startswith("violated:") or r[0].startswith("panic:"):
            return True, "native run of %s%s: %s" % (cn["func"], cn.get("args", []), r[0])
        return False, "native confirmation %s%s: %s" % (cn["func"], cn.get("args", []), r[0])
    if job.get("native", True):
        res, timed_out, out = native_replay(job, [{"func": rec["func"], "args": rec["args"], "values": rec["values"]}], bdir, "cx-" + digest,
                                            timeout=job.get("replay_timeout", 120))
        r = res[0]
        if r is None:
            if timed_out and rec["kind"] in ("nontermination", "deadlock"):
                return True, "native replay: did not terminate within the timeout (reproduced)"
            return False, "native replay produced no outcome: " + out[-400:].replace("\n", " | ")
        outcome = r[0]
        if rec["kind"] == "assert":
            if outcome.startswith("violated:"):
                return True, "native replay: " + outcome
            return False, "native replay: " + outcome
        if rec["kind"] == "panic":
            if outcome.startswith("panic:"):
                return True, "native replay: " + outcome
            return False, "native replay: " + outcome
        return (not outcome.startswith("passed")), "native replay: " + outcome
    # interpreter, concrete mode
    case = {"name": "replay", "func": rec["func"], "args": rec["args"], "replay": rec["values"]}
    res, _ = run_symgo(job, [case], bdir, "cx-" + digest, workers=1)
    if res.get("error") or not res["cases"]:
        return False, "concrete re-execution failed: " + str(res.get("error"))
    cr = res["cases"][0]
    out = cr.get("replay_outcome", "")
    if rec["kind"] == "assert" and out.startswith("violated:"):
        return True, "concrete re-execution of the real SSA: " + out
    if rec["kind"] in ("panic", "deadlock", "nontermination") and (out.startswith("panic") or out.startswith("deadlock") or out.startswith("unwind")):
        return True, "concrete re-execution of the real SSA: " + out
    return False, "concrete re-execution: " + out


def selftest(job, runs, bdir, tag):
    """Translator validation: the same nondet vectors through the interpreter (concrete mode) and the native build."""
    ecases = [{"name": "st%d" % i, "func": r["func"], "args": r["args"], "replay": r["values"] or {"_": 0}} for i, r in enumerate(runs)]
    res, _ = run_symgo(job, ecases, bdir, "selftest-" + tag, workers=4)
    if res.get("error"):
        return 0, ["engine: " + res["error"]]
    nres, timed_out, out = native_replay(job, runs, bdir, "selftest-" + tag)
    ok, bad = 0, []
    for i, (r, cr) in enumerate(zip(runs, res["cases"])):
        n = nres[i]
        if n is None:
            bad.append("%s%s: native run gave no outcome (%s)" % (r["func"], r["args"], out[-300:].replace("\n", " | ")))
            continue
        e_out, e_reach = cr.get("replay_outcome", ""), cr.get("replay_reach") or []
        if e_out != n[0] or list(e_reach) != list(n[1] or []):
            bad.append("%s%s values=%s: interpreter %s %s vs native %s %s" % (r["func"], r["args"], json.dumps(r["values"])[:200], e_out, e_reach, n[0], n[1]))
        else:
            ok += 1
    return ok, bad
