"""Check definitions: for every property, the symgo jobs (package, harness files, cases per tier)."""

ROOT = {"pkg": "filippo.io/sunlight", "pkgname": "sunlight"}

IDEAL_HASH = "SHA-256 is modelled as an ideal hash: equal inputs give equal digests, different inputs different digests (collision-freeness); real digests are used for concrete inputs"


def case(name, func, args=(), reach=(), tiers=("quick", "thorough"), **kw):
    d = {"name": name, "func": func, "args": list(args), "reach": list(reach), "tiers": list(tiers)}
    d.update(kw)
    return d


Q, T = ("quick", "thorough"), ("thorough",)

# ---------------------------------------------------------------- C10
c10_cases = []
for n in (0, 1, 9, 16, 17, 24, 28, 32):
    c10_cases.append(case("decode n=%d" % n, "VerifC10Decode", [n], ["reject"] + (["accept"] if n >= 17 else []), Q, selftest=(n in (17, 28))))
for n in (36, 40, 44, 48):
    c10_cases.append(case("decode n=%d" % n, "VerifC10Decode", [n], ["accept", "reject"], T))
# shape-split buffers: (precert, lc, ext, lp, k, trailing)
for sh in [(0, 0, 1, 0, 0, 0), (0, 3, 1, 0, 1, 1), (0, 2, 0, 0, 1, 0), (1, 1, 1, 1, 0, 0), (1, 2, 1, 2, 1, 1), (1, 0, 0, 0, 0, 2)]:
    c10_cases.append(case("decode shape %s" % (sh,), "VerifC10DecodeShape", sh, ["accept", "reject"], Q, selftest=(sh == (1, 2, 1, 2, 1, 1))))
for sh in [(0, 6, 1, 0, 2, 3), (1, 6, 1, 6, 2, 2), (1, 5, 0, 4, 2, 0), (0, 255, 1, 0, 0, 0), (0, 256, 1, 0, 1, 1), (1, 3, 1, 300, 1, 0)]:
    c10_cases.append(case("decode shape %s" % (sh,), "VerifC10DecodeShape", sh, ["accept", "reject"], T))
# encode -> decode: (precert, lc, lp, k, archival, trailing)
for sh in [(0, 0, 0, 0, 0, 0), (0, 3, 0, 1, 0, 2), (1, 2, 2, 1, 0, 1), (1, 0, 0, 0, 1, 0), (0, 1, 0, 2, 1, 3)]:
    c10_cases.append(case("encode %s" % (sh,), "VerifC10Encode", sh, ["decoded"], Q, selftest=(sh == (1, 2, 2, 1, 0, 1))))
for sh in [(0, 6, 0, 2, 0, 4), (1, 6, 6, 2, 0, 3), (1, 4, 5, 2, 1, 2), (0, 255, 0, 1, 0, 0), (0, 256, 0, 0, 0, 1), (1, 257, 256, 1, 0, 0)]:
    c10_cases.append(case("encode %s" % (sh,), "VerifC10Encode", sh, ["decoded"], T))
for sh in [(0, 0, 0), (0, 3, 0), (1, 2, 0), (1, 1, 1), (0, 2, 1)]:
    c10_cases.append(case("merkle leaf %s" % (sh,), "VerifC10MerkleLeaf", sh, ["encoded"], Q, selftest=(sh == (1, 2, 0))))
for sh in [(0, 256, 0), (1, 255, 0), (1, 6, 1)]:
    c10_cases.append(case("merkle leaf %s" % (sh,), "VerifC10MerkleLeaf", sh, ["encoded"], T))
c10_cases.append(case("extensions 64-bit index", "VerifC10Extensions", [], ["refused", "marshaled"], Q, selftest=True))
for n in (0, 3, 8, 12):
    c10_cases.append(case("parse extensions n=%d" % n, "VerifC10ParseExtensions", [n], ["reject"] + (["accept"] if n >= 8 else []), Q))
for n in (16, 20):
    c10_cases.append(case("parse extensions n=%d" % n, "VerifC10ParseExtensions", [n], ["accept", "reject"], T))
for lvl in (-2, -1, 0, 5):
    c10_cases.append(case("tile path L=%d N<1000" % lvl, "VerifC10TilePath", [lvl, 1000], ["formatted"], Q, selftest=(lvl == -2)))
for lvl in (-2, -1, 0, 1, 2, 3, 4, 5):
    c10_cases.append(case("tile path L=%d N<10^6" % lvl, "VerifC10TilePath", [lvl, 1000000], ["formatted"], T))
for sh in [(0, 1, 0), (1, 1, 1), (2, 1, 0), (2, 1, 1)]:
    c10_cases.append(case("parse path %s" % (sh,), "VerifC10ParsePath", sh, ["accept", "reject"], Q, selftest=(sh == (1, 1, 1))))
for sh in [(10, 1, 0), (11, 1, 1), (12, 1, 0)]:
    c10_cases.append(case("parse path with a non-canonical prefix %s" % (sh,), "VerifC10ParsePath", sh, ["reject"], Q))
for sh in [(0, 2, 0), (2, 2, 1)]:
    c10_cases.append(case("parse path %s" % (sh,), "VerifC10ParsePath", sh, ["accept", "reject"], T))

CHECKS = {
    "C10": {
        "level": "model_checking",
        "jobs": [dict(ROOT, harness=["root/zz_verif_c10.go"], native=True, cases=c10_cases)],
        "bounds": {
            "quick": "decode: fully symbolic buffers of length n in {0,1,9,16,17,24,28,32} plus 6 shape-split buffers (cert<=3, precert<=2, k<=1 fingerprints, trailing<=2); "
                     "encode: cert<=3, precert<=2, k<=2; MerkleTreeLeaf: cert<=3; extension index: full 64-bit; ParseExtensions: n<=12; "
                     "tile paths: L in {-2,-1,0,5}, symbolic N<1000, symbolic W in [1,256]; path parsing: one 3-character group of symbolic characters, optional partial-width suffix, canonical prefix or one of ten non-canonical prefixes",
            "thorough": "decode: n up to 48 plus shape-split up to cert 256 / precert 300 / k=2; encode up to cert 257; tile paths N<10^6 for L in -2..5; path parsing with two groups",
        },
        "assumptions": [
            "bounds as stated; longer inputs are outside the claim",
            "cryptobyte, tlog.Tile.Path, tlog.ParseTilePath, strconv and strings are executed from their real source (dependency code, interpreted)",
            "fmt.Sprintf with symbolic integers is modelled by the engine's decimal formatter (%d, %03d); with concrete operands the native fmt is used",
        ],
    },
}

# ---------------------------------------------------------------- C12
c12_cases = []
for sh in [(0, 2, 0, 0, 2, 0), (1, 1, 0, 1, 1, 0), (0, 34, 0, 1, 2, 0), (0, 10, 1, 0, 2, 0), (1, 1, 1, 1, 1, 1), (0, 2, 1, 0, 2, 1), (0, 1, 0, 0, 2, 0)]:
    same = sh[0] == sh[3] and sh[1] == sh[4] and sh[2] == sh[5]
    c12_cases.append(case("injective %s" % (sh,), "VerifC12Injective", sh, ["different"] + (["equal"] if same else []), Q, selftest=(sh == (1, 1, 0, 1, 1, 0))))
for sh in [(0, 6, 0, 0, 6, 0), (1, 5, 0, 1, 5, 0), (0, 37, 0, 1, 5, 0), (1, 9, 1, 1, 1, 0)]:
    same = sh[0] == sh[3] and sh[1] == sh[4] and sh[2] == sh[5]
    c12_cases.append(case("injective %s" % (sh,), "VerifC12Injective", sh, ["different"] + (["equal"] if same else []), T))
for n in (17, 24, 28):
    c12_cases.append(case("cut n=%d" % n, "VerifC12Cut", [n], ["cut", "reject"], Q, selftest=(n == 24)))
for n in (32, 40):
    c12_cases.append(case("cut n=%d" % n, "VerifC12Cut", [n], ["cut", "reject"], T))
# Entry: (n, lc, precert, idx, delta, mode, allowArchival)
c12_cases += [
    case("entry authentic n=2", "VerifC12Entry", [2, 1, 0, 1, 0, 2, 0], ["returned"], Q, selftest=True),
    case("entry n=1 tampered data tile", "VerifC12Entry", [1, 1, 0, 0, 0, 0, 0], ["returned", "refused"], Q, selftest=True),
    case("entry n=1 tampered data tile, archival allowed", "VerifC12Entry", [1, 1, 0, 0, 0, 0, 1], ["returned", "refused"], Q),
    case("entry n=1 truncated data tile", "VerifC12Entry", [1, 1, 0, 0, -1, 0, 0], ["refused"], Q),
    case("entry n=1 extended data tile", "VerifC12Entry", [1, 1, 0, 0, 2, 0, 0], ["returned", "refused"], Q),
    case("entry n=2 idx=1 tampered hash tile", "VerifC12Entry", [2, 1, 0, 1, 0, 1, 0], ["returned", "refused"], Q),
    case("entry n=2 idx=1 tampered data tile", "VerifC12Entry", [2, 0, 0, 1, 0, 0, 0], ["returned", "refused"], T),
    case("entry n=1 precert tampered data tile", "VerifC12Entry", [1, 0, 1, 0, 0, 0, 0], ["returned", "refused"], T),
    case("entries authentic n=3", "VerifC12Entries", [3, 1, 0, 2], ["complete"], Q, selftest=True),
    case("entries n=1 tampered data tile", "VerifC12Entries", [1, 1, 0, 0], ["complete", "stopped"], Q),
    case("entries n=1 extended data tile", "VerifC12Entries", [1, 1, 1, 0], ["stopped"], Q),
    case("entries n=2 tampered hash tile", "VerifC12Entries", [2, 1, 0, 1], ["complete", "stopped"], Q),
    case("entries n=2 tampered data tile", "VerifC12Entries", [2, 0, 0, 0], ["complete", "stopped"], T),
]

c12s_cases = [
    case("inclusion x509 ext=8", "VerifC12Inclusion", [0, 1, 8], ["confirmed", "refused"], Q),
    case("inclusion precert ext=8", "VerifC12Inclusion", [1, 1, 8], ["confirmed", "refused"], Q),
    case("inclusion unknown extension first", "VerifC12Inclusion", [0, 1, 12], ["confirmed", "refused"], Q),
    case("inclusion short extension", "VerifC12Inclusion", [0, 1, 7], ["refused"], Q),
    case("inclusion x509 ext=16", "VerifC12Inclusion", [0, 3, 16], ["confirmed", "refused"], T),
]

CHECKS["C12"] = {
    "level": "model_checking",
    "jobs": [dict(ROOT, harness=["root/zz_verif_c10.go", "root/zz_verif_c12.go"], native=True, cases=c12_cases),
             dict(ROOT, harness=["root/zz_verif_c10.go", "root/zz_verif_c12.go", "root/zz_verif_c12s.go"], native=False, cases=c12s_cases)],
    "bounds": {
        "quick": "injectivity of MerkleTreeLeaf for pairs of entry shapes with certificates up to 34 bytes; cutEntry over fully symbolic tiles of 17..28 bytes; "
                 "real torchwood client over an authentic log of 1-3 entries (symbolic contents) whose data tile or level-0 hash tile is replaced by fully symbolic bytes (same length, truncated, extended)",
        "thorough": "as quick plus cutEntry up to 40 bytes, two-entry logs with a fully symbolic data tile, precertificate entries",
    },
    "assumptions": [IDEAL_HASH,
                    "torchwood.Client, tlog (TileHashReader, CheckRecord, ProveRecord, TreeHash) and context are executed from their real source",
                    "tile store = in-memory map keyed by TilePath; HTTP, caching and file-system tile readers are outside the claim",
                    "CheckInclusion and Checkpoint are covered in the stub-based job (signature verification as an ideal oracle)"],
}

# ---------------------------------------------------------------- C18
AFTERSUN = {"pkg": "filippo.io/sunlight/cmd/partial-aftersun", "pkgname": "main"}
c18_cases = []
for lvl, lay in [(0, 0), (1, 0), (-1, 0), (-2, 0)]:
    c18_cases.append(case("cleanDir level %d layout %d" % (lvl, lay), "VerifC18Clean", [lvl, lay], ["ok", "removed"], Q))
for lvl, lay in [(2, 0), (3, 0), (5, 0), (6, 0), (-1, 1), (0, 1), (2, 1)]:
    c18_cases.append(case("cleanDir level %d layout %d" % (lvl, lay), "VerifC18Clean", [lvl, lay], ["ok"], T))
c18_cases.append(case("logSize: size of the signature-verified published checkpoint", "VerifC18Size", [0], ["size", "refused"], Q))
c18_cases.append(case("mirroredLogSize: size of the published mirror checkpoint", "VerifC18Size", [1], ["size", "refused"], Q))

CHECKS["C18"] = {
    "level": "model_checking",
    "jobs": [dict(AFTERSUN, harness=["cmd_partial-aftersun/zz_verif_c18.go", "cmd_partial-aftersun/zz_verif_c18s.go"], native=False, cases=c18_cases)],
    "bounds": {
        "quick": "cleanDir over level directories tile/0, tile/1, tile/data, tile/names whose contents are any subset of a 14-path universe "
                 "(full tiles 000/001/x001/002, their .p directories with widths 5/255/1/77, an empty full tile, a stray file, a leftover temp file), "
                 "published tree size symbolic over [0, 2^63); logSize / mirroredLogSize over checkpoints of 16 sizes around the tile boundaries of every level (0 .. 2^62+255), right or foreign origin, right or foreign signing key",
        "thorough": "additionally levels 2,3,5,6 and the witness/mirror layout (torchwood.ParseTilePath)",
    },
    "assumptions": ["model file system replaces os.Root / io/fs (ReadDir sorted listing, Remove of files and empty directories, Stat, Open, immutable flag); the real kernel is outside the claim",
                    "cleanDir takes the size as given; logSize / mirroredLogSize are checked by VerifC18Size (ideal ECDSA, JSON metadata and x509 key parsing as contracts; note.Open, the RFC 6962 verifier and torchwood.ParseCheckpoint from their real source); mirroredLogSize does not verify a signature in the real code (observation)",
                    "levels >= 7 (tile span overflows int64 and the division panics) are outside the claim: such tiles need a tree of 2^56 entries"],
}

# ---------------------------------------------------------------- C13
CTLOG = {"pkg": "filippo.io/sunlight/internal/ctlog", "pkgname": "ctlog"}
c13_cases = []
# Upload: (depth, existing, n, faults, immutable)
for sh in [(0, 0, 3, 0, 0), (0, 1, 3, 0, 0), (1, 0, 1, 0, 1), (2, 0, 3, 0, 1), (2, 0, 0, 0, 1), (0, 1, 0, 0, 0)]:
    c13_cases.append(case("upload %s" % (sh,), "VerifC13Upload", sh, ["uploaded"], Q))
for sh in [(0, 0, 2, 1, 0), (0, 1, 2, 1, 0), (1, 0, 1, 1, 1), (2, 0, 1, 1, 1)]:
    c13_cases.append(case("upload with one I/O fault %s" % (sh,), "VerifC13Upload", sh, ["uploaded", "failed"], Q))
for sh in [(2, 0, 2, 2, 1), (0, 1, 3, 2, 0), (1, 1, 2, 2, 0), (2, 1, 3, 2, 0), (0, 0, 2, 3, 0), (2, 0, 2, 3, 1), (0, 0, 6, 1, 0)]:
    c13_cases.append(case("upload with two I/O faults %s" % (sh,), "VerifC13Upload", sh, ["uploaded", "failed"], T))
# Reupload: (n, m, shortReads)
for sh in [(0, 0, 0), (1, 1, 0), (3, 3, 1), (3, 2, 1), (2, 3, 0), (0, 1, 0), (1, 0, 0)]:
    same = sh[0] == sh[1]
    c13_cases.append(case("immutable re-upload %s" % (sh,), "VerifC13Reupload", sh, (["different"] if sh[0] + sh[1] > 0 else []) + (["identical"] if same else []), Q, unwind=64, unwind_is_violation=True,
                          confirm_native={"func": "VerifC13NativeReupload", "args": [sh[0], sh[1]], "timeout": 20}))
for sh in [(6, 6, 1), (5, 6, 1), (10, 10, 1), (11, 10, 1), (40, 40, 0)]:
    same = sh[0] == sh[1]
    c13_cases.append(case("immutable re-upload %s" % (sh,), "VerifC13Reupload", sh, ["different"] + (["identical"] if same else []), T, unwind=128, unwind_is_violation=True))
for sh, tiers in [((16387, 16387, 0), Q), ((16385, 16384, 0), T), ((32769, 32769, 0), T)]:
    same = sh[0] == sh[1]
    c13_cases.append(case("immutable re-upload across the 16384-byte chunk %s" % (sh,), "VerifC13Reupload", sh, ["different"] + (["identical"] if same else []), tiers, unwind=64, unwind_is_violation=True))
for n in (1, 3):
    for op in (0, 1, 2):
        c13_cases.append(case("confinement key len %d op %d" % (n, op), "VerifC13Confine", [n, op], ["refused", "touched"], Q,
                              confirm_native={"func": "VerifC13NativeDotKey", "args": [], "timeout": 20}))
for n in (4, 5, 6):
    for op in (0, 1, 2):
        c13_cases.append(case("confinement key len %d op %d" % (n, op), "VerifC13Confine", [n, op], ["refused", "touched"], T))
c13_cases.append(case("discard mutable", "VerifC13Discard", [0], ["discarded"], Q))
c13_cases.append(case("discard immutable", "VerifC13Discard", [1], ["discarded"], Q))

CHECKS["C13"] = {
    "level": "model_checking",
    "jobs": [dict(CTLOG, harness=["internal_ctlog/zz_verif_c13.go"], native=False, cases=c13_cases)],
    "bounds": {
        "quick": "one upload into a directory tree with 0-2 missing levels, object lengths 0-3 (symbolic bytes), with and without a previous object, fault budget 0-1 "
                 "(any single os call fails, writes may be partial); crash point and concurrent reader = every system call of the upload; re-upload lengths 0-3 with short reads; "
                 "keys of 1-3 symbolic characters over {'.','/','\\','a',NUL}",
        "thorough": "fault budgets 2 and 3, object lengths up to 6, re-upload lengths up to 40 (every short-read pattern up to 11 bytes), keys up to 6 characters",
    },
    "assumptions": ["the model file system of DESIGN.md §3.3 replaces package os and the kernel (fsync makes file bytes / directory entries durable; rename is atomic in the volatile view; "
                    "power loss keeps the durable state plus any subset of un-synced effects; Read may be short and returns (0,nil) for an empty buffer)",
                    "objects larger than the bounds (multi-megabyte) are outside the claim; the 16384-byte chunking of compareFile is exercised only through short reads",
                    "immutable inode flag: modelled as a boolean that blocks rename-over and remove"],
}

# ---------------------------------------------------------------- C01
WORLD = ["internal_ctlog/zz_verif_world.go", "internal_ctlog/zz_verif_c05.go", "internal_ctlog/zz_verif_c09.go", "internal_ctlog/zz_verif_c17.go", "internal_ctlog/zz_verif_c02.go", "internal_ctlog/zz_verif_c03.go", "internal_ctlog/zz_verif_c01.go"]
c01_cases = [
    # VerifC01(n0, rounds, pool, faults, crashes, clock) ; clock 0 = arbitrary readings, 1 = strictly increasing
    case("n0=0 1 round pool 1 F=1 C=0 arbitrary clock", "VerifC01", [0, 1, 1, 1, 0, 0], ["final", "audited", "fatal"], Q),
    case("n0=0 1 round pool 1 F=0 C=1 arbitrary clock", "VerifC01", [0, 1, 1, 0, 1, 0], ["final", "audited"], Q),
    case("n0=1 2 rounds pool 1 no faults arbitrary clock", "VerifC01", [1, 2, 1, 0, 0, 0], ["final", "audited", "fatal"], Q),
    case("n0=0 2 rounds pool 1 F=0 C=1 arbitrary clock", "VerifC01", [0, 2, 1, 0, 1, 0], ["final", "audited"], Q),
    case("n0=255 1 round pool 2 F=1 C=0", "VerifC01", [255, 1, 2, 1, 0, 1], ["final", "audited"], Q),
    case("n0=255 1 round pool 2 F=0 C=1", "VerifC01", [255, 1, 2, 0, 1, 1], ["final", "audited"], Q),
    case("n0=255 3 rounds pool 1 no faults (reaching and leaving the tile boundary in one instance)", "VerifC01", [255, 3, 1, 0, 0, 1], ["final", "audited"], Q),
    case("n0=1 2 rounds pool 1 F=1 C=0 arbitrary clock", "VerifC01", [1, 2, 1, 1, 0, 0], ["final", "audited", "fatal"], T),
    case("n0=255 1 round pool 2 F=1 arbitrary clock", "VerifC01", [255, 1, 2, 1, 0, 0], ["final", "audited"], T),
]
CHECKS["C01"] = {
    "level": "model_checking",
    "jobs": [dict(CTLOG, harness=WORLD + ["internal_ctlog/zz_verif_c01.go"], native=False, cases=c01_cases)],
    "bounds": {"quick": "pre-states of 0, 1 and 255 leaves; 1-2 rounds of 0-2 symbolic submissions; one fault (any storage/lock operation, applied or not) or one crash (before any operation); every clock reading symbolic",
               "thorough": "additionally: two rounds with one fault under an arbitrary clock from 1 leaf; one round of up to 2 entries with one fault under an arbitrary clock from 255 leaves (deeper combinations - 3 rounds, 2 faults, fault+crash from 254/256 leaves - did not finish within the 15 minutes available for validating them and are NOT registered)"},
    "assumptions": [IDEAL_HASH, "ideal deterministic ECDSA / ML-DSA signatures (opaque keys)", "lock store = a correct compare-and-swap register (the real ones are C05)",
                    "tar, gzip, JSON, SQLite cache, X.509 parsing modelled by the contracts of DESIGN.md §3.4", "crash = fail-stop disconnection at an operation boundary"],
}

# ---------------------------------------------------------------- C03 / C04
# VerifC03(n0, pool, faults, crashes, shape, unparseable)
c03_cases = [
    case("n0=0 pool 1 one crash", "VerifC03", [0, 1, 0, 1, 0, 0], ["recovered", "resumed", "acknowledged"], Q),
    case("n0=255 pool 2 one crash (tile boundary)", "VerifC03", [255, 2, 0, 1, 0, 0], ["recovered", "resumed", "acknowledged"], Q),
    case("n0=1 pool 1 two crashes (crash during recovery)", "VerifC03", [1, 1, 0, 2, 0, 0], ["recovered", "resumed"], Q),
    case("n0=254 pool 3 one crash", "VerifC03", [254, 3, 0, 1, 0, 0], ["recovered", "resumed"], T),
    case("n0=256 pool 1 two crashes", "VerifC03", [256, 1, 0, 2, 0, 0], ["recovered", "resumed"], T),
    case("n0=0 pool 2 crash and fault", "VerifC03", [0, 2, 1, 1, 0, 0], ["recovered", "resumed"], T),
    case("n0=255 pool 2 two crashes one fault", "VerifC03", [255, 2, 1, 2, 0, 0], ["recovered", "resumed"], T),
]
c04_cases = [
    case("n0=0 precertificate, one fault", "VerifC03", [0, 1, 1, 0, 1, 0], ["recovered", "resumed", "acknowledged"], Q),
    case("n0=0 two issuers, one fault", "VerifC03", [0, 1, 1, 0, 3, 0], ["recovered", "resumed", "acknowledged"], Q),
    case("n0=0 two submissions with (possibly the same) issuer, one fault", "VerifC03", [0, 2, 1, 0, 2, 0], ["recovered", "resumed", "acknowledged"], Q),
    case("n0=255 pool 2 unparseable certificates, one fault", "VerifC03", [255, 2, 1, 0, 0, 1], ["recovered", "resumed", "acknowledged"], Q),
    case("n0=1 issuer, one crash", "VerifC03", [1, 1, 0, 1, 2, 0], ["recovered", "resumed"], Q),
    # VerifC04Rounds(n0, rounds, pool, faults, shape): rounds in the same instance, no restart in between
    case("n0=0 three rounds of 0-2 entries in one instance", "VerifC04Rounds", [0, 3, 2, 0, 0], ["done"], Q),
    case("n0=254 three rounds of 0-2 entries in one instance (across the tile boundary)", "VerifC04Rounds", [254, 3, 2, 0, 2], ["done"], Q),
    case("n0=255 two rounds of 0-1 precertificates in one instance, one fault", "VerifC04Rounds", [255, 2, 1, 1, 1], ["done"], T),
    case("n0=253 three rounds of 0-3 entries in one instance", "VerifC04Rounds", [253, 3, 3, 0, 0], ["done"], T),
    case("n0=256 precertificates, fault and crash", "VerifC03", [256, 2, 1, 1, 1, 1], ["recovered", "resumed"], T),
]
WORLD_ASSUME = [IDEAL_HASH, "ideal deterministic ECDSA / ML-DSA signatures (opaque keys)", "lock store = a correct compare-and-swap register (the real ones are C05)",
                "tar, gzip, JSON, SQLite cache, X.509 parsing modelled by the contracts of DESIGN.md §3.4", "crash = fail-stop disconnection at an operation boundary",
                "errgroup/goroutines: uploads started with Go run when the caller blocks in Wait; a closure never waited for never runs"]
CHECKS["C03"] = {
    "level": "model_checking",
    "jobs": [dict(CTLOG, harness=WORLD + ["internal_ctlog/zz_verif_c01.go", "internal_ctlog/zz_verif_c03.go"], native=False, cases=c03_cases)],
    "bounds": {"quick": "pre-states 0, 1, 255 leaves; one round of 1-2 symbolic submissions; 1-2 crashes before any storage/lock operation of the round or of the recovery; strictly increasing symbolic clock",
               "thorough": "pre-states 254, 256; pool up to 3; two crashes combined with one fault"},
    "assumptions": WORLD_ASSUME + ["strictly increasing clock (clock anomalies are C01)", "no tampering (C08)"],
}
CHECKS["C04"] = {
    "level": "model_checking",
    "jobs": [dict(CTLOG, harness=WORLD + ["internal_ctlog/zz_verif_c01.go", "internal_ctlog/zz_verif_c03.go"], native=False, cases=c04_cases)],
    "bounds": {"quick": "entry shapes: certificate, precertificate, 1-2 issuers, unparseable certificates (symbolic first byte); pre-states 0, 1, 255; one fault (applied or not) or one crash; three consecutive rounds of 0-2 entries in the same instance from 0 and 254 leaves (every way of reaching and crossing the tile boundary)",
               "thorough": "pre-state 256 with fault+crash; consecutive rounds from 253 and 255 leaves, with a fault (pre-state 254 with pool 3 and two faults did not finish within 10 minutes and is not part of the claim)"},
    "assumptions": WORLD_ASSUME + ["exact gzip bytes and the JSON spelling of names tiles are outside the claim (their contracts are used)"],
}

# ---------------------------------------------------------------- C02 / C07
# VerifC02(n0, faults, actions, cacheLoss)
# VerifC02(n0, faults, actions, cacheLoss, dups)
c02_cases = [
    case("n0=0 one interleaved action, no faults", "VerifC02", [0, 0, 1, 0, 1], ["done", "ack after the round", "duplicate"], Q),
    case("n0=0 one fault, polls after the round", "VerifC02", [0, 1, 0, 0, 0], ["done", "fatal"], Q),
    case("n0=0 one fault, resubmission of equal entries after the round", "VerifC02", [0, 1, 0, 0, 1], ["done", "fatal"], Q),
    case("n0=255 one fault, polls after the round", "VerifC02", [255, 1, 0, 0, 0], ["done"], Q),
    case("n0=1 two interleaved actions", "VerifC02", [1, 0, 2, 0, 1], ["done", "duplicate"], T),
]
c07_cases = [
    case("n0=0 duplicates at every yield point", "VerifC02", [0, 0, 1, 0, 1], ["done", "duplicate"], Q),
    case("n0=1 cache loss or rollback", "VerifC02", [1, 0, 1, 1, 1], ["done", "duplicate"], Q),
    case("n0=1 failed round then resubmission (cache rollback allowed)", "VerifC02", [1, 1, 0, 1, 1], ["done", "fatal"], Q),
    case("n0=0 a whole round interleaved into a submission with a new issuer", "VerifC07SubmitDuringRound", [0], ["done", "interleaved"], Q),
    case("n0=255 a whole round interleaved into a submission with a new issuer", "VerifC07SubmitDuringRound", [255], ["done", "interleaved"], T),
    case("acknowledged indexes under eviction, pool size 1", "VerifC17Pool", [1, 3], ["sequenced", "eviction"], Q),
    case("acknowledged indexes under eviction, pool size 2", "VerifC17Pool", [2, 4], ["sequenced", "eviction"], Q),
]
CHECKS["C02"] = {
    "level": "model_checking",
    "jobs": [dict(CTLOG, harness=WORLD + ["internal_ctlog/zz_verif_c01.go", "internal_ctlog/zz_verif_c03.go", "internal_ctlog/zz_verif_c02.go"], native=False, cases=c02_cases)],
    "bounds": {"quick": "pre-states 0 and 255; one submission before the round, one interleaved poll-or-submission at any storage/lock/cache/pause yield point of the round, one late submission (all with symbolic bytes, so duplicates are decided by the solver), one fault; second round, restart, third round",
               "thorough": "additionally two interleaved actions from 1 leaf (fault + action combinations did not finish within the validation budget and are NOT registered)"},
    "assumptions": WORLD_ASSUME + ["submitters run as atomic sections at yield points (addLeafToPool holds poolMu for its whole critical section)", "SCT assembly over HTTP is checked in C09's harness"],
}
CHECKS["C07"] = {
    "level": "model_checking",
    "jobs": [dict(CTLOG, harness=WORLD + ["internal_ctlog/zz_verif_c01.go", "internal_ctlog/zz_verif_c03.go", "internal_ctlog/zz_verif_c02.go", "internal_ctlog/zz_verif_c17.go"], native=False, cases=c07_cases)],
    "bounds": {"quick": "up to 5 submissions of 2 symbolic bytes (every duplicate pattern), placed before the round, at any yield point, between rounds and after a restart; cache rollback to any earlier state; one fault; a whole sequencing round interleaved at any storage operation of a submission that uploads a new issuer",
               "thorough": "additionally a whole round interleaved into a submission from 255 leaves (two actions with cache loss from 255 leaves did not finish within the validation budget and are NOT registered)"},
    "assumptions": WORLD_ASSUME + ["submitters run as atomic sections at yield points", "legacy 128-bit cache table and the recompute-cache tool are covered by the cache-key kernel check"],
}

# ---------------------------------------------------------------- C17
C17H = WORLD + ["internal_ctlog/zz_verif_c01.go", "internal_ctlog/zz_verif_c03.go", "internal_ctlog/zz_verif_c02.go", "internal_ctlog/zz_verif_c17.go"]
c17_cases = [
    case("pool size 1, 3 arrivals", "VerifC17Pool", [1, 3], ["sequenced", "eviction", "rejected"], Q),
    case("pool size 2, 4 arrivals", "VerifC17Pool", [2, 4], ["sequenced", "eviction", "rejected", "pool-duplicate"], Q),
    case("unlimited pool, 3 arrivals", "VerifC17Pool", [0, 3], ["sequenced"], Q),
    case("pool size 3, 5 arrivals", "VerifC17Pool", [3, 5], ["sequenced", "eviction", "rejected"], T),
    case("pool size 2, 6 arrivals", "VerifC17Pool", [2, 6], ["sequenced", "eviction", "rejected"], T),
    case("stop by cancellation", "VerifC17Stop", [0, 1], ["stopped"], Q),
    case("stop by the read-only date", "VerifC17Stop", [1, 1], ["stopped"], Q),
    case("stop by a fatal lock failure", "VerifC17Stop", [2, 0], ["stopped"], Q),
    case("stop by a clock that does not progress (arbitrary reading)", "VerifC17Stop", [3, 1], ["stopped", "progressed"], Q),
    case("stop by a fatal lock failure after two rounds", "VerifC17Stop", [2, 2], ["stopped"], T),
    case("HTTP answer: rejected from a full pool (503)", "VerifC09Status", [0], ["answered"], Q),
    case("HTTP answer: evicted (503 retry later)", "VerifC09Status", [1], ["answered"], Q),
    case("HTTP answer: read-only log (410)", "VerifC09Status", [2], ["answered"], Q),
]
CHECKS["C17"] = {
    "level": "model_checking",
    "jobs": [dict(CTLOG, harness=C17H, native=False, cases=c17_cases)],
    "bounds": {"quick": "pool sizes 0 (unlimited), 1, 2; 3-4 arrivals with symbolic priority and symbolic bytes; the eviction victim is chosen by a symbolic map-iteration start; one round; "
                        "RunSequencer with a manual ticker stopped by cancellation, by the read-only date (symbolic time past the limit), by a lock failure or by an arbitrary (possibly stalled or backward) clock reading",
               "thorough": "pool size 3 with 5 arrivals, pool size 2 with 6 arrivals, stops after two rounds"},
    "assumptions": WORLD_ASSUME + ["virtual time: the ticker fires when the harness says so; time.Since is a harness-controlled value", "HTTP status mapping (503/410/500) is checked in C09's harness",
                                   "goroutine scheduling is cooperative: the sequencer goroutine runs until it blocks"],
}

# ---------------------------------------------------------------- C14
WITNESS = {"pkg": "filippo.io/sunlight/internal/witness", "pkgname": "witness"}
WW = ["internal_witness/zz_verif_wworld.go"]
# VerifC14History(size, forkAt, requests, faults, restart)
c14_cases = [
    # VerifC14History(size, forkAt, requests, faults, restart, firstValid)
    case("size 3 fork at 1, valid request then any request", "VerifC14History", [3, 1, 2, 0, 0, 1], ["done", "cosigned", "409", "403", "422"], Q),
    case("size 3 fork at 1, valid then any, one fault, restart", "VerifC14History", [3, 1, 2, 1, 1, 1], ["done", "cosigned", "500", "restarted"], Q),
    case("size 2 fork at 1, first request arbitrary", "VerifC14History", [2, 1, 1, 0, 0, 0], ["done", "cosigned", "409", "403", "400"], Q),
    case("unknown log", "VerifC14Unknown", [], ["404"], Q),
    case("size 3 fork at 1, two arbitrary requests, one fault", "VerifC14History", [3, 1, 2, 1, 0, 0], ["done", "cosigned", "500"], T),
    case("size 5 fork at 2, valid then two arbitrary requests", "VerifC14History", [5, 2, 3, 0, 1, 1], ["done", "cosigned"], T),
    case("size 5 fork at 2, valid then any, two faults", "VerifC14History", [5, 2, 2, 2, 1, 1], ["done", "cosigned", "500"], T),
]
CHECKS["C14"] = {
    "level": "model_checking",
    "jobs": [dict(WITNESS, harness=WW + ["internal_witness/zz_verif_c14.go"], native=False, cases=c14_cases)],
    "bounds": {"quick": "a log of 3 leaves forked at 1; 2 add-checkpoint requests with symbolic old size, new size, branch, proof (right, corrupted, empty) and signature (valid, wrong key, unknown key); one lock/storage fault (applied or not); optional restart between requests",
               "thorough": "5 leaves forked at 2; 3 requests"},
    "assumptions": [IDEAL_HASH, "log signatures: ideal MAC keyed by the log key; witness Ed25519 / ML-DSA signatures: ideal deterministic signatures (opaque keys)",
                    "tlog.CheckTree, note.Open/Sign, torchwood checkpoint parsing and cosignature code are executed from their real source",
                    "witness configuration JSON is modelled (stored map of logs); concurrency: updateCheckpoint is one critical section of the per-log mutex, so concurrent requests are request orderings",
                    "lock store = a correct CAS register with fault injection"],
}

# ---------------------------------------------------------------- C11
c11_cases = [case("sign and open, size kind %d" % k, "VerifC11SignOpen", [k], ["signed"], Q if k in (0, 3, 5) else T) for k in range(6)]
c11_cases += [
    case("signature blob of the valid length (28 bytes)", "VerifC11Blob", [28], ["accepted", "rejected"], Q),
    case("signature blob one byte longer", "VerifC11Blob", [29], ["rejected"], Q),
    case("signature blob one byte shorter", "VerifC11Blob", [27], ["rejected"], Q),
    case("signature blob 12 bytes", "VerifC11Blob", [12], ["rejected"], Q),
    case("signature blob 40 bytes", "VerifC11Blob", [40], ["rejected"], T),
    case("text mutation, origin line", "VerifC11Text", [0, 18], ["accepted", "rejected"], Q),
    case("text mutation, size line", "VerifC11Text", [18, 23], ["accepted", "rejected"], Q),
    case("text mutation, hash line (first 8)", "VerifC11Text", [23, 31], ["accepted", "rejected"], Q),
    case("text mutation, hash line (rest)", "VerifC11Text", [31, 68], ["accepted", "rejected"], T),
    case("extension line, trailing bytes, foreign origin, other size/key", "VerifC11Extra", [], ["checked"], Q),
]
CHECKS["C11"] = {
    "level": "model_checking",
    "jobs": [dict(CTLOG, harness=WORLD + ["internal_ctlog/zz_verif_c11.go"], native=False, cases=c11_cases)],
    "bounds": {"quick": "sign/open: tree sizes 0, 256, 2^62-1 with symbolic 32-byte root and symbolic 63-bit timestamp; signature blobs: every byte string of length 12, 27, 28, 29; "
                        "text: one arbitrary byte at each position of the origin, size and first hash characters; extension line, 2 arbitrary trailing bytes, foreign origin/size/key",
               "thorough": "all six sizes, blob length 40, every position of the hash line"},
    "assumptions": [IDEAL_HASH, "ideal deterministic ECDSA / ML-DSA signatures: Verify accepts exactly the recorded signature of a recorded (key, digest) pair",
                    "ct.SerializeSTHSignatureInput is the fixed RFC 6962 §3.5 layout (its reflection-based TLS encoder is not executed)", "note.Sign/Open, torchwood checkpoint and cosignature code, cryptobyte and base64 are executed from their real source (base64 of symbolic payloads through the interning oracle)",
                    "RSA keys and key types other than ECDSA P-256 are outside the claim; randomness (grease, signer order) is fixed"],
}

# ---------------------------------------------------------------- C06 / C08
ALLW = WORLD + ["internal_ctlog/zz_verif_c01.go", "internal_ctlog/zz_verif_c03.go", "internal_ctlog/zz_verif_c02.go", "internal_ctlog/zz_verif_c17.go"]
c06_cases = [
    case("two instances, n0=0", "VerifC06TwoInstances", [0, 0], ["done", "A-lost", "B-lost"], Q),
    case("two instances, n0=1, loser and winner continue", "VerifC06TwoInstances", [1, 1], ["done", "A-lost", "B-lost"], Q),
    case("two instances, n0=255", "VerifC06TwoInstances", [255, 1], ["done", "A-lost", "B-lost"], T),
] + [case("start-up state %d" % st, "VerifC06Startup", [st, 1], ["checked"], Q) for st in range(9)] + [
    case("start-up state %d, n0=255" % st, "VerifC06Startup", [st, 255], ["checked"], T) for st in (2, 3, 8)]
CHECKS["C06"] = {
    "level": "model_checking",
    "jobs": [dict(CTLOG, harness=ALLW + ["internal_ctlog/zz_verif_c06.go"], native=False, cases=c06_cases)],
    "bounds": {"quick": "two instances with one submission each; instance B runs one whole round at any storage/lock operation of A's round (or after it); pre-states 0 and 1; start-up states: create over existing lock entry / published checkpoint, stale lock store, same size different root (symbolic root), foreign key, foreign origin, missing lock entry, missing checkpoint",
               "thorough": "pre-state 255"},
    "assumptions": WORLD_ASSUME + ["instances share no memory; B's round is interleaved as a whole (round granularity) at every operation of A's round — finer interleavings commute except through the lock store",
                                   "a publication step-back by the losing... cannot occur here because the loser never reaches the upload; cmd/sunlight YAML handling is outside the claim"],
}
# VerifC08Tamper(n0, budget, target)
c08_cases = [
    # VerifC08Tamper(n0, budget, target, positions)
    case("n0=1 one tampered object: checkpoint", "VerifC08Tamper", [1, 1, 1, 24], ["refused to load", "loaded", "signed"], Q),
    case("n0=3 one tampered object: hash tiles", "VerifC08Tamper", [3, 1, 2, 24], ["refused to load", "loaded", "signed"], Q),
    case("n0=255 one tampered object: hash tiles", "VerifC08Tamper", [255, 1, 2, 24], ["refused to load", "loaded", "signed"], Q),
    case("n0=1 one tampered object: data tile (first windows)", "VerifC08Tamper", [1, 1, 3, 4], ["refused to load", "loaded", "signed"], Q),
    case("n0=1 one tampered object: staging bundle (first windows)", "VerifC08Tamper", [1, 1, 4, 3], ["refused to load", "loaded", "signed"], Q),
    case("n0=1 one tampered object: issuer", "VerifC08Tamper", [1, 1, 5, 24], ["loaded", "signed"], Q),
    case("n0=3 one tampered object: hash tiles during crash recovery", "VerifC08Tamper", [3, 1, 6, 24], ["refused to load", "loaded", "signed"], Q),
    case("n0=0 data tile and hash tile tampered consistently during crash recovery", "VerifC08Tamper", [0, 2, 7, 24], ["refused to load", "loaded", "signed"], Q),
    case("n0=1 data tile and hash tile tampered consistently during crash recovery", "VerifC08Tamper", [1, 2, 7, 24], ["refused to load", "loaded", "signed"], Q),
    case("n0=1 right-edge data tile with authentic entries swapped or duplicated", "VerifC08Tamper", [1, 1, 8, 24], ["refused to load"], Q),
    case("n0=3 right-edge data tile with authentic entries swapped or duplicated", "VerifC08Tamper", [3, 1, 8, 24], ["refused to load"], Q),
    case("n0=257 right-edge data tile with authentic entries swapped or duplicated", "VerifC08Tamper", [257, 1, 8, 24], ["refused to load"], T),
    case("n0=1 one tampered object: data tile (all windows)", "VerifC08Tamper", [1, 1, 3, 24], ["refused to load", "loaded", "signed"], T),
    case("n0=1 one tampered object: staging bundle (all windows)", "VerifC08Tamper", [1, 1, 4, 24], ["refused to load", "loaded", "signed"], T),
    case("n0=3 two tampered objects: hash tiles", "VerifC08Tamper", [3, 2, 2, 24], ["refused to load", "loaded", "signed"], T),
    case("n0=256 one tampered object: data tile", "VerifC08Tamper", [256, 1, 3, 24], ["refused to load", "loaded", "signed"], T),
]
CHECKS["C08"] = {
    "level": "model_checking",
    "jobs": [dict(CTLOG, harness=ALLW + ["internal_ctlog/zz_verif_c08.go"], native=False, cases=c08_cases)],
    "bounds": {"quick": "pre-states of 2 and 4 leaves; one object per class (checkpoint, right-edge hash tiles, right-edge data tile, staging bundle with the lock ahead of storage, issuer) is deleted, swapped with another object, replaced by fully symbolic bytes of the same length, or truncated at a symbolic point; the right-edge data tile with two authentic entries swapped or one duplicated over another; restart and one more round; if a checkpoint is signed its root is the committed tree plus the new entry and the data tile published with it holds the committed leaves",
               "thorough": "two tampered objects of any class; pre-states 255 and 256 (arbitrary 8-byte window for long objects)"},
    "assumptions": WORLD_ASSUME + ["tampering is applied to what Fetch returns during the restart and the following round", "comparison is on Merkle-covered content; a tampered data tile that keeps the covered fields but alters uncovered ones is accepted by LoadLog (observation, DESIGN.md)"],
}

# ---------------------------------------------------------------- C09
c09_cases = []
for kind, clen, ep in [(0, 1, 0), (0, 3, 0), (1, 2, 1), (2, 3, 1), (2, 4, 1), (1, 1, 1), (2, 2, 1), (0, 2, 1), (1, 2, 0)]:
    ok = not ((kind >= 1 and clen < 2) or (kind == 2 and clen < 3) or ((kind >= 1) != (ep == 1)))
    c09_cases.append(case("submit kind %d chain %d endpoint %d" % (kind, clen, ep), "VerifC09Submit", [kind, clen, ep], ["rejected"] + (["accepted"] if ok else []), Q))
c09_cases += [case("status mode %d" % m, "VerifC09Status", [m], ["answered"], Q) for m in range(4)]
c09_cases.append(case("roots: reload with a failing upload, then retry", "VerifC09Roots", [], ["installed", "failed"], Q))
CHECKS["C09"] = {
    "level": "model_checking",
    "jobs": [dict(CTLOG, harness=sorted(set(WORLD)), native=False, cases=c09_cases)],
    "bounds": {"quick": "abstract chains of 1-4 certificates with symbolic Raw/TBS/SPKI bytes; certificate, precertificate, precertificate with a precertificate signing certificate; both endpoints; validator accepts or rejects (symbolic); malformed poison extension; full pool, eviction, read-only and failed-round answers; root-set installation with symbolic PEM bytes, one storage fault (applied or not) on the upload, then a retry with the same bytes",
               "thorough": "same"},
    "assumptions": WORLD_ASSUME + ["X.509 path validation, EKU and NotAfter-window enforcement inside certificate-transparency-go are NOT encoded: ctfe.ValidateChain is a stub that accepts or rejects nondeterministically and whose arguments (root pool, window pointers, EKU list) are checked; the claim is 'accepted exactly when the validator accepts, invoked with the right trust configuration'",
                                   "IsPrecertificate / BuildPrecertTBS are functions of the abstract certificate; JSON request/response framing is modelled; PEM parsing is a stub"],
}

# ---------------------------------------------------------------- C05
c05_cases = []
for kind, name in [(0, "SQLite"), (1, "DynamoDB"), (2, "ETag S3")]:
    c05_cases.append(case("%s register, 4 operations" % name, "VerifC05Register", [kind, 4], ["fetch-missing", "fetch", "create", "create-exists", "replace", "replace-stale"], Q,
                          confirm_native={"func": "VerifC05NativeETagMissing", "args": [], "timeout": 60} if kind == 2 else None))
    c05_cases.append(case("%s register, 5 operations" % name, "VerifC05Register", [kind, 5], ["fetch", "create", "replace", "replace-stale"], T,
                          confirm_native={"func": "VerifC05NativeETagMissing", "args": [], "timeout": 60} if kind == 2 else None))
for c in c05_cases:
    if c.get("confirm_native") is None:
        c.pop("confirm_native", None)
CHECKS["C05"] = {
    "level": "model_checking",
    "jobs": [dict(CTLOG, harness=sorted(set(WORLD)), native=False, cases=c05_cases)],
    "bounds": {"quick": "creation followed by 3 operations (fetch / create / replace) by 2 clients on 2 log IDs, in symbolic order, with values of length 0-2 (symbolic bytes, nil vs empty), per backend",
               "thorough": "creation followed by 4 operations"},
    "assumptions": ["PARTIAL CLAIM: 'each method is exactly one conditional request that implements compare-and-swap under the service's documented semantics' — the services are models that interpret the requests: the SQL subset used by sqlite.go (BLOB equality, NULL never equal, NOT NULL, changes()), DynamoDB GetItem/PutItem with 'checkpoint = :old' / 'attribute_not_exists(logID)' and ConsistentRead (an inconsistent read may be stale), S3 GetObject/PutObject with If-Match on ETags (empty value = must not exist; NoSuchKey for a missing object)",
                    "atomicity, durability and cross-process behaviour of SQLite (C engine), DynamoDB and S3 themselves, synchronous=FULL, and how cgo binds BLOB/TEXT with NUL bytes are not Go source and are outside the claim",
                    "each request is atomic at the service, so interleavings of clients and processes are sequences of requests"],
}

# ---------------------------------------------------------------- C16
c16_cases = [
    case("log of 4 leaves", "VerifC16Subtree", [4], ["answered", "refused"], Q),
    case("log of 8 leaves", "VerifC16Subtree", [8], ["answered", "refused"], T),
]
CHECKS["C16"] = {
    "level": "model_checking",
    "jobs": [dict(WITNESS, harness=WW + ["internal_witness/zz_verif_c14.go", "internal_witness/zz_verif_c16.go"], native=False, cases=c16_cases)],
    "bounds": {"quick": "log of 4 leaves (forked at 1): every checkpoint size 1-4, start 0-4, end 0-5, twelve combinations of signers on the checkpoint (none, witness ML-DSA, mirror ML-DSA, both, witness+Ed25519, foreign only, forged witness line only, mirror+forged, Ed25519 only, witness + a foreign key under the mirror's name, mirror + a foreign key under the witness's name, both impostor lines only), right / wrong / other-branch subtree hash, right / corrupted proof",
               "thorough": "log of 8 leaves"},
    "assumptions": [IDEAL_HASH, "ideal deterministic ML-DSA / Ed25519 signatures (opaque keys); log signatures: ideal MAC", "torchwood.ValidSubtree, CheckSubtree, SubtreeHash, ProveSubtree, the cosignature signer/verifier and note.Open/Sign are executed from their real source on concrete sizes",
                    "(start, end) and sizes range over the small log (decimal parsing of 64-bit values is exercised on those); larger trees are outside the claim"],
}

# ---------------------------------------------------------------- C20
SKYLIGHT = {"pkg": "filippo.io/sunlight/cmd/skylight", "pkgname": "main"}
c20_cases = [case("checkLog: every combination of key, origin, final tree, symbolic times", "VerifC20Log", [], ["healthy", "sunset", "unhealthy"], Q)]
for b in (0, 1, 2):
    c20_cases.append(case("witness directory, broken=%d" % b, "VerifC20Witness", [0, 3, b], ["healthy"] if b == 0 else ["unhealthy"], Q))
for size in (1, 2, 3, 4):
    for b in (0, 3, 4):
        c20_cases.append(case("mirror of %d entries, broken=%d" % (size, b), "VerifC20Witness", [1, size, b], ["healthy"] if b == 0 else ["unhealthy"], Q))
for b in (1, 2, 5, 6, 7):
    c20_cases.append(case("mirror of 3 entries, broken=%d" % b, "VerifC20Witness", [1, 3, b], ["unhealthy"], Q))
for size in (5, 8):
    for b in (0, 3, 4, 5):
        c20_cases.append(case("mirror of %d entries, broken=%d" % (size, b), "VerifC20Witness", [1, size, b], ["healthy"] if b == 0 else ["unhealthy"], T))
for size, bs in ((16, (0, 3, 4, 5)), (64, (0, 3)), (255, (0, 4, 5)), (256, (0, 3, 4, 5, 6, 7)), (257, (0, 3, 4, 5)), (513, (0, 3, 4))):
    for b in bs:
        c20_cases.append(case("mirror of %d entries, broken=%d" % (size, b), "VerifC20Witness", [1, size, b], ["healthy"] if b == 0 else ["unhealthy"], T))
c20_cases.append(case("/health aggregation over a regular and a staging log", "VerifC20Health", [0], ["green", "red"], Q))
c19_cases = []
for kind, groups, partial in [(0, 1, 0), (0, 1, 1), (1, 1, 0), (1, 1, 1), (2, 1, 0), (2, 1, 1), (3, 1, 0), (3, 1, 1), (1, 2, 0)]:
    c19_cases.append(case("tile route kind %d groups %d partial %d" % (kind, groups, partial), "VerifC19Tile", [kind, groups, partial],
                          [["hash tile"], ["data tile"], ["names tile"], ["data tile"]][kind], Q))
c19_cases += [case("checkpoint, metadata and issuer routes", "VerifC19Fixed", [], ["checked"], Q),
              case("filesOnlyFS hides directories", "VerifC19FilesOnly", [], ["file", "refused"], Q)]
CHECKS["C19"] = {
    "level": "other",
    "explanation": "Partial claim decided by bounded symbolic execution of the repository's own read-path code: the four log route handlers (closures of main, located by route pattern and bound by the engine) and filesOnlyFS. For every layout path built from symbolic digits the response headers present at dispatch (content type, gzip content-encoding exactly for data/names tiles and entry bundles, immutable cache policy for tiles and issuers, no-store for checkpoints), the handler chosen (rate-limited or not) and the path handed to the file handler are asserted; filesOnlyFS never returns a directory. The witness/mirror origin routes (prefix stripping through http.StripPrefix and a nested ServeMux) could not be carried through net/http's ServeMux by the engine and are outside the claim. Confinement to the configured directory and byte-exact file serving are provided by os.Root and net/http.FileServerFS (standard library over system calls) and are NOT encoded; ServeMux routing itself is not executed.",
    "jobs": [dict(SKYLIGHT, harness=["cmd_skylight/zz_verif_c20.go", "cmd_skylight/zz_verif_c19.go"], native=False, cases=c19_cases)],
    "bounds": {"quick": "tile paths tile/<level digit>|data|names|entries/ with 1-2 groups of three symbolic digits and an optional .p/<digit> suffix; 4-character symbolic issuer name", "thorough": "same"},
    "assumptions": ["os.Root confinement, http.FileServerFS and http.ServeMux are not encoded (standard library over system calls)", "handlers are dispatched to stand-in file handlers that record headers, context and path", "http.Header and context are executed from their real source"],
}
CHECKS["C20"] = {
    "level": "model_checking",
    "jobs": [dict(SKYLIGHT, harness=["cmd_skylight/zz_verif_c20.go", "cmd_skylight/zz_verif_c19.go"], native=False, cases=c20_cases)],
    "bounds": {"quick": "checkLog: signing key right/wrong, origin right/wrong, final tree absent / matching / wrong hash / wrong size / wrong timestamp, time past the NotAfter limit and checkpoint age fully symbolic (64-bit durations); "
                        "witness directories and mirrors of 1-4 entries with one condition broken at a time (unpublished key, wrong directory name, one arbitrary byte of the right-edge tile at any position, missing tile, mirror ahead of pending, pending not signed by the witness, pending of another origin)",
               "thorough": "mirrors of 5, 8, 16, 64, 255, 256, 257 and 513 entries (level-1 tiles; the tampered byte ranges over every byte of any right-edge tile)"},
    "assumptions": [IDEAL_HASH, "ideal ECDSA / ML-DSA signatures", "in-memory fs.FS behind os.Root.FS; JSON metadata, x509.ParsePKIXPublicKey, time.Parse and vkey parsing are contracts; note.Open, torchwood (ParseCheckpoint, TileFS, TileHashReader, RightEdge) and tlog are executed from their real source",
                    "the /health handler closure of main is located by its route pattern and executed with its captured variables bound by the engine (two logs, one of them staging); its loop over witness checks is exercised only with no witness configured"],
}

# ---------------------------------------------------------------- C15
# VerifC15Mirror(size, requests, faults, restart)
c15_cases = [
    case("log of 3 entries, one request", "VerifC15Mirror", [3, 1, 0, 0], ["done", "mirror-cosigned", "packages-refused"], Q),
    case("log of 2 entries, one request, one fault", "VerifC15Mirror", [2, 1, 1, 0], ["done", "mirror-cosigned", "commit-refused"], Q),
    case("log of 2 entries, two requests with restart", "VerifC15Mirror", [2, 2, 0, 1], ["done", "mirror-cosigned", "restarted"], Q),
    case("mid-tile commit behind next_entry (3 entries, cut at 2), one fault", "VerifC15Cut", [3, 2, 1], ["done", "cut-cosigned", "commit-failed", "resumed"], Q),
    case("mid-tile commit behind next_entry (5 entries, cut at 3), no fault", "VerifC15Cut", [5, 3, 0], ["done", "cut-cosigned", "resumed"], Q),
    case("log of 3 entries, two requests with restart", "VerifC15Mirror", [3, 2, 0, 1], ["done", "mirror-cosigned", "restarted"], T),
    case("log of 3 entries, two requests, one fault", "VerifC15Mirror", [3, 2, 1, 0], ["done", "mirror-cosigned"], T),
    case("mid-tile commit (4 entries, cut at 3), two faults", "VerifC15Cut", [4, 3, 2], ["done", "cut-cosigned", "resumed"], T),
]
CHECKS["C15"] = {
    "level": "model_checking",
    "jobs": [dict(WITNESS, harness=WW + ["internal_witness/zz_verif_c14.go", "internal_witness/zz_verif_c15.go"], native=False, cases=c15_cases)],
    "bounds": {"quick": "logs of 2-3 entries; pending checkpoint at a symbolic size (optionally growing to the full size between requests); 1-2 add-entries requests with every (start, end), wrong first entry, corrupted proof, body truncated at any byte, genuine or forged ticket; one lock/storage fault; restart between requests",
               "thorough": "3-4 entries with fault and restart; two faults on the mid-tile commit (a 258-entry log across the tile boundary did not finish within 50 minutes and is NOT part of the claim)"},
    "assumptions": [IDEAL_HASH, "ideal signatures; ticket AEAD = ideal (opens only what was sealed with the same associated data)", "gzip contract; HTTP framing of add-entries (headers, content-encoding) is not executed: the three processing phases are called as serveAddEntries calls them",
                    "torchwood.CheckSubtree / SubtreeHash / HashReaderOverlay and tlog tile code are executed from their real source", "requests are processed one at a time (the per-log mutex sections of the three phases are not interleaved with other requests)"],
}

# ---------------------------------------------------------------- manifest texts
NOT_APPLICABLE = {}
_WORLD_NOTE = ("environment = the ctlog world of DESIGN.md §3.1: in-memory object storage and a correct CAS lock store with per-operation crash/fault injection, "
               "symbolic clock, ideal hashing and signatures, contracts for tar/gzip/JSON/SQLite/X.509 parsing; bounds in the evidence file")
MANIFEST_TEXT = {
    "C01": {
        "text": "bounded symbolic execution of the real CreateLog, LoadLog, sequence/sequencePool, signTreeHead and openCheckpoint against the ctlog world: every placement of a fault (applied or not) or crash over the storage/lock operations and every clock reading are symbolic; monitors at every lock commit (sizes never shrink, timestamps strictly increase, equal sizes have equal roots) and at every publication (committed first), then an RFC 6962 prefix audit of every checkpoint in both histories by an independent Merkle tree hash",
        "note": _WORLD_NOTE,
    },
    "C02": {
        "text": "bounded symbolic execution of addLeafToPool, the wait closures and sequencePool with submitters and waiters run at every yield point of the round (each storage/lock operation, cache writes, the pause hook): every acknowledgement is checked at its instant against the published checkpoint and the stored leaf, again after a second round and after a restart",
        "note": _WORLD_NOTE + "; submitters are atomic sections at yield points; the SCT bytes assembled by the HTTP handler are checked by C09's harness",
    },
    "C03": {
        "text": "bounded symbolic execution of one sequencing round and of the recovery (LoadLog, applyStagedUploads) with a crash before any storage/lock operation of the round or of the recovery itself (up to 2 crashes), plus faults: recovery must succeed once failures stop, storage must then hold byte-exact every tile of the committed tree, sequencing must resume, acknowledged entries must still be at their index, and every Discard is checked against the published size at its instant",
        "note": _WORLD_NOTE + "; strictly increasing clock; crash = fail-stop disconnection at operation boundaries",
    },
    "C04": {
        "text": "same executions as C03, plus several consecutive rounds in one instance (symbolic number of entries per round, reaching and crossing the tile boundary), with the storage monitors as the subject: at every publication of a checkpoint an independent oracle recomputes every hash tile (all levels), data tile, names tile and issuer object the tree needs (RFC 6962 hashing, independent TileLeaf encoder, closed-form tile coordinates) and compares them byte for byte with storage; immutable objects are never rewritten with different bytes; only staging bundles are discarded",
        "note": _WORLD_NOTE + "; entry shapes: certificate, precertificate, 1-2 issuers, unparseable certificates",
    },
    "C05": {
        "text": "bounded symbolic execution of SQLiteBackend, DynamoDBBackend and ETagBackend (Fetch, Replace, Create and their LockedCheckpoint types) in a differential harness against a reference compare-and-swap register: histories of creation followed by 3-4 fetch/create/replace operations by two clients on two log IDs in symbolic order with symbolic values (lengths 0-2, nil vs empty); every result, returned value, error identity (ErrLogNotFound) and 'exactly one request per method' is compared with the reference",
        "note": "PARTIAL CLAIM: the services are request-interpreting models (SQL subset with NULL semantics and changes(), DynamoDB condition expressions and ConsistentRead with possibly stale inconsistent reads, S3 If-Match on ETags); atomicity/durability of SQLite's C engine, DynamoDB and S3, cross-process behaviour and NUL-byte handling in cgo are not Go source and outside the claim; one genuine defect (ETag backend and ErrLogNotFound) was found, confirmed against a local HTTP server, and repaired",
    },
    "C06": {
        "text": "bounded symbolic execution of two Log instances with the same key over one lock store and object storage: instance B runs a whole sequencing round at any storage/lock operation of instance A's round; exactly one commits, the other returns the fatal error and acknowledges nothing, the lock history stays one monotone chain and the prefix audit holds; plus CreateLog over an existing log and every refused start-up state of LoadLog (stale lock store, same size with a symbolic different root, foreign key, foreign origin, missing entries) with no write performed",
        "note": _WORLD_NOTE + "; interleaving at round granularity for instance B (instances share no memory and interact only through the lock store CAS, which is covered at every position)",
    },
    "C08": {
        "text": "bounded symbolic execution of LoadLog (all verification branches), uploadIssuer, applyStagedUploads and a following round while an adversary controls what Fetch returns for an object of each class (checkpoint, right-edge hash tiles, data tile, staging bundle with the lock ahead of storage, issuer): deleted, swapped/rolled back, replaced by fully symbolic bytes (8-byte symbolic windows for long objects), truncated, or (data tile) with authentic entries swapped or duplicated; the log refuses to load, stops, or the next committed checkpoint is the Merkle tree hash of the untampered committed leaves plus the newly sequenced entry and the data tile published with it holds the committed leaves at every position",
        "note": _WORLD_NOTE + "; ideal hashing makes 'verification passed' imply byte equality of Merkle-covered content; uncovered content (fingerprints, names) may be altered without contradicting C08 (observation in DESIGN.md); byte-level mutation of the signed checkpoint itself is C11",
    },
    "C09": {
        "text": "bounded symbolic execution of addChainOrPreChain (and lowPriority, SetRootsFromPEM, rootPool) around a stubbed chain validator: the validator is checked to receive the current root pool, the shard's NotAfter window and the serverAuth EKU; for accepted abstract chains (symbolic Raw/TBS/SPKI bytes; certificate, precertificate, precertificate signing certificate) the logged entry, issuers and the SCT (version, log ID, timestamp, extension, signature over an independently derived MerkleTreeLeaf) equal an independent derivation; rejected or mis-routed submissions get a client error and leave no leaf; pool-full/evicted/read-only/failed answers map to 503/503/410/500; a root reload whose upload fails leaves the roots in force unchanged and a retry installs, reports and persists the new set",
        "note": "PARTIAL CLAIM: X.509 path building, EKU and NotAfter enforcement live inside certificate-transparency-go (ASN.1, math/big, reflection) and are not encoded — ctfe.ValidateChain is a nondeterministic stub with checked arguments; PEM and JSON framing are modelled",
    },
    "C07": {
        "text": "bounded symbolic execution of the deduplication paths (current pool, in-sequencing map, cache) with up to five submissions of symbolic bytes, so that every duplicate pattern is decided by the solver, placed before, during (every yield point) and after rounds, across cache rollback to any earlier state, failed rounds and a restart; a whole sequencing round placed at any storage operation of a submission that uploads a new issuer; plus admission under eviction; equal entries get the same index and timestamp, each acknowledged index holds the entry, and leaves are assigned exactly once",
        "note": _WORLD_NOTE + "; the legacy 128-bit cache table fallback and cmd/recompute-cache's duplicate key function are not exercised (stated in DESIGN.md)",
    },
    "C11": {
        "text": "bounded symbolic execution of signTreeHead, digitallySign, NewRFC6962InjectedSigner/Verifier, RFC6962SignatureTimestamp and openCheckpoint: sign-then-open for symbolic root and timestamp with an independent STH serializer and signature check; every signature blob of the lengths around the valid one is accepted only if it is the canonical encoding of the valid signature; a checkpoint text with one arbitrary byte at any position, an extension line, trailing bytes, a foreign origin, size or key is accepted only if an independent parser reads the signed tuple from it",
        "note": "ideal ECDSA/ML-DSA (Verify accepts exactly recorded signatures); fixed STH layout for ct.SerializeSTHSignatureInput; ECDSA keys only; note/torchwood/cryptobyte/base64 code executed for real",
    },
    "C14": {
        "text": "bounded symbolic execution of processAddCheckpointRequest and updateCheckpoint (with the real note.Open/Sign, tlog.CheckTree and torchwood cosigners) over a forked log: sequences of requests with symbolic old size, new size, branch, proof and signature kind, lock/storage faults (applied or not) and witness restarts; all cosigned or published checkpoints lie on one branch with non-decreasing sizes, a checkpoint is recorded before its cosignature is released or published, and refusals carry the protocol's answers",
        "note": "logs of 3 (quick) / 5 (thorough) leaves; ideal hashing and signatures; witness configuration JSON modelled; concurrent requests = request orderings (updateCheckpoint is one critical section)",
    },
    "C15": {
        "text": "bounded symbolic execution of processAddEntriesMetadata, mirrorConflict/verifyTicket, processAddEntriesPackages/Package, completeTileFromBackend, processAddEntriesCommit and ensureCutTiles with the real torchwood subtree proofs and overlay: add-entries requests with every (start, end), wrong entries, corrupted proofs, truncation at any byte, genuine and forged tickets, faults and restarts; at the instant a mirror checkpoint takes effect in the lock store an independent oracle checks that storage already serves every entry bundle and hash tile of the size-N tree with exactly the log's entries, that N does not exceed the pending checkpoint and never decreases, and signatures are returned only after that record",
        "note": "small logs (2-5 entries; a 258-entry log did not finish and is not claimed); the HTTP layer and concurrent interleaving of the three phases with other requests are outside the claim; ideal hashing, signatures and AEAD",
    },
    "C16": {
        "text": "bounded symbolic execution of processSignSubtreeRequest and splitSignatures with the real torchwood ValidSubtree/CheckSubtree/cosignature code and note.Open over a small forked log: every (start, end, checkpoint size), twelve signer combinations on the presented checkpoint (including foreign and forged lines and lines under an own name made with a foreign key), right/wrong/other-branch subtree hash and right/corrupted proof; an answer implies an independently recomputed valid range within the checkpoint, the right subtree hash, and exactly one valid subtree cosignature per own ML-DSA key whose cosignature is on the checkpoint",
        "note": "logs of 4 (quick) / 8 (thorough) leaves; ideal hashing and signatures; sizes and ranges beyond the small log are outside the claim",
    },
    "C19": {
        "text": "PARTIAL: bounded symbolic execution of the repository's own read-path code — the four log route handlers of skylight's main (closures located by route pattern and bound by the engine) and filesOnlyFS — for layout paths built from symbolic digits: headers present at dispatch (content type, gzip content-encoding exactly for data/names tiles and entry bundles, immutable cache policy for tiles and issuers, no-store for checkpoints), the file handler chosen and the exact path handed to it, and that directories are never opened",
        "note": "level 'other': confinement to the configured directory and byte-exact serving are provided by os.Root and net/http.FileServerFS (standard library over system calls) and are not encoded; ServeMux routing and the witness/mirror prefix routes are outside the claim",
    },
    "C20": {
        "text": "bounded symbolic execution of checkLog and witnessHealth.loadVerifiers/hashes/check over in-memory directory trees with the real note, torchwood and tlog code: for logs every combination of key, origin and final-tree condition (wrong size / timestamp symbolic) with fully symbolic clock differences is compared with an independent decision table (healthy / sunset / unhealthy); for witness and mirror directories each condition is broken alone (unpublished key, wrong directory, an arbitrary byte at any position of the right-edge tile, missing tile, mirror ahead of pending, pending not cosigned, foreign pending origin) and must turn the result into a failure that names the log",
        "note": "the /health handler closure is executed with two logs and no witness; metadata JSON, PKIX and vkey parsing are contracts; ideal signatures and hashing",
    },
    "C17": {
        "text": "bounded symbolic execution of addLeafToPool (size check, eviction, cancel channels), the wait closures, sequence and RunSequencer under a cooperative goroutine scheduler: arrival sequences with symbolic priorities and bytes into pools of size 0-3 with the eviction victim chosen by a symbolic map-iteration start; every arrival is checked against the admission rule, evicted entries are never sequenced, every submitter gets exactly one outcome, and after a stop (cancellation, read-only date with symbolic time, fatal lock error, a clock reading that does not progress) every pending and future submission fails and nothing more is committed",
        "note": _WORLD_NOTE + "; virtual time (manual ticker, harness-controlled time.Since); the 503/410 HTTP mapping is checked by C09's harness",
    },
    "C10": {
        "text": "bounded symbolic execution of the real codec functions (readTileLeaf, AppendTileLeaf, MerkleTreeLeaf, Marshal/ParseExtensions, TilePath/ParseTilePath and the cryptobyte/tlog/strconv code below them) over fully symbolic byte strings, entries, tile coordinates and path strings (symbolic characters, canonical and non-canonical prefixes); every path's assertions are discharged by the SMT solver, so the claim holds for every input within the stated length bounds",
        "note": "bounds: byte strings up to 32 (quick) / 48 (thorough) fully symbolic bytes plus shape-split longer entries; tile index N<1000 (quick) / 10^6 (thorough); decimal formatting of symbolic integers by fmt is modelled by the engine",
    },
    "C12": {
        "text": "bounded symbolic execution of cutEntry, Client.Entry, Client.AllEntries/Entries and CheckInclusion: injectivity of MerkleTreeLeaf on the covered fields, coherence of cutEntry with the parser, and the real torchwood client and tlog proof checking run over an authentic small log whose served tiles are replaced by fully symbolic bytes; hashing is an ideal oracle",
        "note": "logs of 1-3 entries, tiles up to ~60 symbolic bytes; SHA-256 ideal (collision-free); CheckInclusion with tls.Unmarshal / tls.VerifySignature / the torchwood fetch stubbed by contract; Checkpoint() is covered with the C11 note machinery; HTTP, caches and file readers outside the claim",
    },
    "C13": {
        "text": "bounded symbolic execution of LocalBackend.Upload/Fetch/Discard, compareFile and durable.WriteFile/MkdirAll/Mkdir over a model file system with volatile and durable state: every system call of an upload is a crash point and a reader interleaving point, any call may fail, reads may be short; durability, atomicity, immutability (all lengths including 0, termination by a proven unwinding bound) and confinement for symbolic keys are asserted",
        "note": "the model file system (fsync / rename / power-loss semantics of DESIGN.md §3.3) replaces package os and the kernel; objects up to 3 bytes plus one 16387-byte re-upload across the compare chunk (quick) / 40 and 32769 bytes (thorough), keys up to 3 / 6 symbolic characters; two genuine defects were found, confirmed on the real file system and repaired (known_findings.json)",
    },
    "C18": {
        "text": "bounded symbolic execution of the real cleanDir/overrideImmutable and of logSize/mirroredLogSize (the size is exactly that of the published checkpoint, which must verify under the log's own key and origin / origin hash) over a model directory whose contents are any subset of a universe of candidate paths, with the published tree size a symbolic 63-bit value: every Remove and every immutable-flag clear is checked against an independent oracle (partial inside a .p directory, full sibling present and non-empty, tile strictly left of the right edge by overflow-free arithmetic), and nothing else changes",
        "note": "model file system for os.Root/io/fs; levels 0,1,data,names quick, up to level 6 and the mirror layout thorough; cleanDir takes the size as an input; logSize/mirroredLogSize are executed separately over 16 sizes around the tile boundaries; the post-GC restart of the log server is covered with the ctlog world",
    },
}
