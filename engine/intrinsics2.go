package main

import (
	"crypto/sha256"
	"encoding/base64"
	"encoding/hex"
	"fmt"
	"go/constant"
	"go/types"
	"strings"

	"golang.org/x/tools/go/ssa"
)

func fieldIndex(t types.Type, name string) int {
	if p, ok := t.Underlying().(*types.Pointer); ok {
		t = p.Elem()
	}
	s, ok := t.Underlying().(*types.Struct)
	if !ok {
		return -1
	}
	for i := 0; i < s.NumFields(); i++ {
		if s.Field(i).Name() == name {
			return i
		}
	}
	return -1
}

func registerSyncIntrinsics(in *Interp) {
	I := in.intrins
	lock := func(st *State, p Ptr, write bool) {
		if st.locks == nil {
			st.locks = map[int]int{}
		}
		key := p.Obj*64 + pathKey(p.Path)
		h := st.locks[key]
		me := st.g().id + 1
		if write {
			if h != 0 {
				if h == me {
					panic(blockSignal{"self-deadlock: mutex already held by this goroutine"})
				}
				panic(blockSignal{fmt.Sprintf("mutex o%d held", p.Obj)})
			}
			st.locks[key] = me
		} else {
			if h > 0 {
				panic(blockSignal{fmt.Sprintf("rwmutex o%d write-held", p.Obj)})
			}
			st.locks[key] = h - 1
		}
		st.g().held = append(st.g().held, key)
	}
	unlock := func(st *State, p Ptr, write bool) {
		key := p.Obj*64 + pathKey(p.Path)
		h := st.locks[key]
		if write {
			if h <= 0 {
				panic(goPanic{"sync: unlock of unlocked mutex"})
			}
			delete(st.locks, key)
		} else {
			if h >= 0 {
				panic(goPanic{"sync: RUnlock of unlocked RWMutex"})
			}
			if h == -1 {
				delete(st.locks, key)
			} else {
				st.locks[key] = h + 1
			}
		}
		g := st.g()
		for i := len(g.held) - 1; i >= 0; i-- {
			if g.held[i] == key {
				g.held = append(g.held[:i:i], g.held[i+1:]...)
				break
			}
		}
		st.wake++
	}
	I["(*sync.Mutex).Lock"] = func(st *State, fr *Frame, a []Value, _ ssa.Value) (Value, int) {
		lock(st, a[0].(Ptr), true)
		return done(nil)
	}
	I["(*sync.Mutex).Unlock"] = func(st *State, fr *Frame, a []Value, _ ssa.Value) (Value, int) {
		unlock(st, a[0].(Ptr), true)
		return done(nil)
	}
	I["(*sync.Mutex).TryLock"] = func(st *State, fr *Frame, a []Value, _ ssa.Value) (Value, int) {
		p := a[0].(Ptr)
		if st.locks[p.Obj*64+pathKey(p.Path)] != 0 {
			return done(Bool{})
		}
		lock(st, p, true)
		return done(Bool{C: true})
	}
	I["(*sync.RWMutex).Lock"] = I["(*sync.Mutex).Lock"]
	I["(*sync.RWMutex).Unlock"] = I["(*sync.Mutex).Unlock"]
	I["(*sync.RWMutex).RLock"] = func(st *State, fr *Frame, a []Value, _ ssa.Value) (Value, int) {
		lock(st, a[0].(Ptr), false)
		return done(nil)
	}
	I["(*sync.RWMutex).RUnlock"] = func(st *State, fr *Frame, a []Value, _ ssa.Value) (Value, int) {
		unlock(st, a[0].(Ptr), false)
		return done(nil)
	}
	wgKey := func(p Ptr) int { return p.Obj*64 + pathKey(p.Path) }
	I["(*sync.WaitGroup).Add"] = func(st *State, fr *Frame, a []Value, _ ssa.Value) (Value, int) {
		if st.wgs == nil {
			st.wgs = map[int]int{}
		}
		k := wgKey(a[0].(Ptr))
		st.wgs[k] += st.concrete(a[1].(Int))
		if st.wgs[k] < 0 {
			panic(goPanic{"sync: negative WaitGroup counter"})
		}
		st.wake++
		return done(nil)
	}
	I["(*sync.WaitGroup).Done"] = func(st *State, fr *Frame, a []Value, _ ssa.Value) (Value, int) {
		if st.wgs == nil {
			st.wgs = map[int]int{}
		}
		k := wgKey(a[0].(Ptr))
		st.wgs[k]--
		if st.wgs[k] < 0 {
			panic(goPanic{"sync: negative WaitGroup counter"})
		}
		st.wake++
		return done(nil)
	}
	I["(*sync.WaitGroup).Wait"] = func(st *State, fr *Frame, a []Value, _ ssa.Value) (Value, int) {
		if st.wgs[wgKey(a[0].(Ptr))] > 0 {
			panic(blockSignal{"WaitGroup.Wait"})
		}
		return done(nil)
	}
	I["(*sync.WaitGroup).Go"] = func(st *State, fr *Frame, a []Value, _ ssa.Value) (Value, int) {
		unsupported("WaitGroup.Go")
		return nil, hNo
	}
	I["(*sync.Pool).Get"] = func(st *State, fr *Frame, a []Value, res ssa.Value) (Value, int) {
		p := a[0].(Ptr)
		idx := fieldIndex(types.NewPointer(st.robj(p.Obj).Typ), "New")
		if idx < 0 {
			return done(Iface{})
		}
		nf := st.load(Ptr{Obj: p.Obj, Path: extend(p.Path, idx)}).(Func)
		if nf.Fn == nil {
			return done(Iface{})
		}
		st.invoke(fr, nf, nil, res, false)
		return nil, hTaken
	}
	I["(*sync.Pool).Put"] = func(st *State, fr *Frame, a []Value, _ ssa.Value) (Value, int) { return done(nil) }

	// sync/atomic: typed values and functions, handled generically by name
	atomicOp := func(op string) Intrinsic {
		return func(st *State, fr *Frame, a []Value, _ ssa.Value) (Value, int) {
			p := a[0].(Ptr)
			cell := p
			isBool := false
			if o := st.robj(p.Obj); true {
				// typed atomics are structs with a field v
				var t types.Type = o.Typ
				for _, i := range p.Path {
					switch u := t.Underlying().(type) {
					case *types.Struct:
						t = u.Field(i).Type()
					case *types.Array:
						t = u.Elem()
					}
				}
				if t != nil {
					if idx := fieldIndex(t, "v"); idx >= 0 {
						cell = Ptr{Obj: p.Obj, Path: extend(p.Path, idx)}
						if n, ok := t.(*types.Named); ok && n.Obj().Name() == "Bool" {
							isBool = true
						}
					}
				}
			}
			toCell := func(v Value) Value {
				if isBool {
					if v.(Bool).T != nil {
						unsupported("symbolic atomic.Bool")
					}
					if v.(Bool).C {
						return mkInt(32, false, 1)
					}
					return mkInt(32, false, 0)
				}
				return v
			}
			fromCell := func(v Value) Value {
				if isBool {
					return Bool{C: v.(Int).C != 0}
				}
				return v
			}
			switch op {
			case "Load":
				return done(fromCell(st.load(cell)))
			case "Store":
				st.store(cell, toCell(a[1]))
				st.wake++
				return done(nil)
			case "Swap":
				old := st.load(cell)
				st.store(cell, toCell(a[1]))
				st.wake++
				return done(fromCell(old))
			case "Add":
				nv := st.binopAdd(st.load(cell), a[1])
				st.store(cell, nv)
				st.wake++
				return done(nv)
			case "And", "Or":
				unsupported("atomic And/Or")
			case "CompareAndSwap":
				cur := st.load(cell)
				eq := st.eqTerm(cur, toCell(a[1]))
				if st.decide(eq) {
					st.store(cell, toCell(a[2]))
					st.wake++
					return done(Bool{C: true})
				}
				return done(Bool{})
			}
			unsupported("atomic op %s", op)
			return nil, hNo
		}
	}
	for _, ty := range []string{"Int32", "Int64", "Uint32", "Uint64", "Uintptr", "Bool", "Value"} {
		for _, op := range []string{"Load", "Store", "Swap", "Add", "CompareAndSwap"} {
			I["(*sync/atomic."+ty+")."+op] = atomicOp(op)
		}
	}
	for _, op := range []string{"Load", "Store", "Swap", "CompareAndSwap"} {
		I["(*sync/atomic.Pointer)."+op] = atomicOp(op) // origin name of generic instantiations
		I["(*sync/atomic.Pointer[T])."+op] = atomicOp(op)
	}
	for _, ty := range []string{"Int32", "Int64", "Uint32", "Uint64", "Uintptr", "Pointer"} {
		I["sync/atomic.Load"+ty] = atomicOp("Load")
		I["sync/atomic.Store"+ty] = atomicOp("Store")
		I["sync/atomic.Swap"+ty] = atomicOp("Swap")
		I["sync/atomic.Add"+ty] = atomicOp("Add")
		I["sync/atomic.CompareAndSwap"+ty] = atomicOp("CompareAndSwap")
	}
}

func pathKey(p []int) int {
	k := 0
	for _, i := range p {
		k = (k*7 + i + 1) % 61
	}
	return k
}

func (st *State) binopAdd(x, y Value) Value {
	a, b := x.(Int), y.(Int)
	if a.T == nil && b.T == nil {
		return mkInt(a.W, a.Signed, a.C+b.C)
	}
	return mkIntT(a.W, a.Signed, tBV("bvadd", a.term(), b.term()))
}

// ---- time ----

const baseTimeExt = 63_900_000_000 // seconds since year 1 (≈ 2025), no monotonic reading

func registerTimeIntrinsics(in *Interp) {
	I := in.intrins
	I["time.Now"] = func(st *State, fr *Frame, a []Value, _ ssa.Value) (Value, int) {
		return done(Struct{mkInt(64, false, 0), mkI64(baseTimeExt), Ptr{}})
	}
	I["time.runtimeNano"] = func(st *State, fr *Frame, a []Value, _ ssa.Value) (Value, int) { return done(mkI64(1)) }
	I["time.AfterFunc"] = func(st *State, fr *Frame, a []Value, _ ssa.Value) (Value, int) {
		tp := st.in.prog.ImportedPackage("time").Type("Timer").Type()
		return done(Ptr{Obj: st.alloc(tp)})
	}
	I["(*time.Timer).Stop"] = func(st *State, fr *Frame, a []Value, _ ssa.Value) (Value, int) { return done(Bool{C: true}) }
	I["(*time.Timer).Reset"] = I["(*time.Timer).Stop"]
	I["(*time.Ticker).Stop"] = func(st *State, fr *Frame, a []Value, _ ssa.Value) (Value, int) { return done(nil) }
	I["(*time.Ticker).Reset"] = I["(*time.Ticker).Stop"]
	mkChanObj := func(st *State, typ string) (Ptr, Chan) {
		tp := st.in.prog.ImportedPackage("time").Type(typ).Type()
		id := st.alloc(tp)
		ch := Chan{Obj: st.newObj(&Object{Ch: &ChanData{Cap: 1}})}
		st.wobj(id).Elems[fieldIndex(tp, "C")] = ch
		return Ptr{Obj: id}, ch
	}
	I["time.NewTicker"] = func(st *State, fr *Frame, a []Value, _ ssa.Value) (Value, int) {
		p, ch := mkChanObj(st, "Ticker")
		st.tickers = append(st.tickers[:len(st.tickers):len(st.tickers)], ch.Obj)
		return done(p)
	}
	I["time.NewTimer"] = func(st *State, fr *Frame, a []Value, _ ssa.Value) (Value, int) {
		p, _ := mkChanObj(st, "Timer")
		return done(p)
	}
	I["time.After"] = func(st *State, fr *Frame, a []Value, _ ssa.Value) (Value, int) {
		_, ch := mkChanObj(st, "Timer")
		return done(ch)
	}
	I["time.Tick"] = I["time.After"]
	// verifTick makes every ticker created so far deliver one tick (if its buffer is free)
	I["verif:verifTick"] = func(st *State, fr *Frame, a []Value, _ ssa.Value) (Value, int) {
		for _, id := range st.tickers {
			o := st.robj(id)
			if len(o.Ch.Buf) == 0 {
				st.wobj(id).Ch.Buf = []Value{Struct{mkInt(64, false, 0), mkI64(baseTimeExt), Ptr{}}}
			}
		}
		st.wake++
		return done(nil)
	}
}

// ---- formatting ----

func (st *State) sprintf(format string, args []Value) Value {
	sym := false
	for _, a := range args {
		if e, ok := a.(Iface); ok && e.T != nil && hasSym(e.V) {
			sym = true
		}
	}
	if sym {
		return st.symSprintf(format, args)
	}
	goargs := make([]any, len(args))
	for i, a := range args {
		goargs[i] = st.toNative(a)
	}
	return Str{S: fmt.Sprintf(format, goargs...)}
}

func (st *State) toNative(a Value) any {
	e, ok := a.(Iface)
	if !ok {
		return fmt.Sprintf("<%T>", a)
	}
	if e.T == nil {
		return nil
	}
	return st.toNativeV(e.V, e.T)
}

func (st *State) toNativeV(v Value, t types.Type) any {
	switch x := v.(type) {
	case Int:
		if x.Signed {
			switch x.W {
			case 8:
				return int8(x.sval())
			case 16:
				return int16(x.sval())
			case 32:
				return int32(x.sval())
			}
			return x.sval()
		}
		switch x.W {
		case 8:
			return uint8(x.C)
		case 16:
			return uint16(x.C)
		case 32:
			return uint32(x.C)
		}
		return x.C
	case Bool:
		return x.C
	case Str:
		return x.S
	case Float:
		return x.F
	case Slice:
		if b, ok := st.concBytes2(x); ok {
			return b
		}
		return fmt.Sprintf("<slice len %d>", x.Len)
	case Array:
		b := make([]byte, 0, len(x))
		for _, e := range x {
			bi, ok := e.(Int)
			if !ok || bi.W != 8 {
				return fmt.Sprintf("<array len %d>", len(x))
			}
			b = append(b, byte(bi.C))
		}
		return b
	case Ptr:
		if t != nil && x.Obj != 0 {
			// error values and Stringers: use the message field of the standard error types
			ts := t.String()
			if ts == "*errors.errorString" || ts == "*fmt.wrapError" || ts == "*fmt.wrapErrors" {
				if s, ok := st.robj(x.Obj).Elems[0].(Str); ok {
					return s.S
				}
			}
		}
		return fmt.Sprintf("<ptr o%d>", x.Obj)
	case Struct:
		if t != nil {
			// tlog.Tile and similar small structs of ints: print fields
			parts := make([]string, len(x))
			for i, f := range x {
				parts[i] = fmt.Sprint(st.toNativeV(f, nil))
			}
			return "{" + strings.Join(parts, " ") + "}"
		}
		return "<struct>"
	}
	return fmt.Sprintf("<%T>", v)
}

func (st *State) concBytes2(s Slice) ([]byte, bool) {
	if s.Obj == 0 {
		return nil, true
	}
	out := make([]byte, s.Len)
	for i := 0; i < s.Len; i++ {
		v, ok := st.sliceGet(s, i).(Int)
		if !ok || v.W != 8 || v.T != nil {
			return nil, false
		}
		out[i] = byte(v.C)
	}
	return out, true
}

// symSprintf supports the verbs the interpreted code uses with symbolic operands:
// %d %03d (non-negative integers), %s (strings), %x on byte strings is not supported.
func (st *State) symSprintf(format string, args []Value) Value {
	var out []Value
	argi := 0
	lit := func(s string) {
		for i := 0; i < len(s); i++ {
			out = append(out, mkByte(s[i]))
		}
	}
	for i := 0; i < len(format); i++ {
		c := format[i]
		if c != '%' {
			out = append(out, mkByte(c))
			continue
		}
		i++
		zero := false
		width := 0
		for i < len(format) && format[i] >= '0' && format[i] <= '9' {
			if format[i] == '0' && width == 0 {
				zero = true
			}
			width = width*10 + int(format[i]-'0')
			i++
		}
		if i >= len(format) {
			break
		}
		verb := format[i]
		if verb == '%' {
			out = append(out, mkByte('%'))
			continue
		}
		if argi >= len(args) {
			unsupported("sprintf: missing argument")
		}
		e := args[argi].(Iface)
		argi++
		switch v := e.V.(type) {
		case Int:
			if verb != 'd' && verb != 'v' {
				unsupported("sprintf verb %%%c on symbolic integer", verb)
			}
			if v.T == nil {
				goargs := st.toNativeV(v, nil)
				spec := "%"
				if zero {
					spec += "0"
				}
				if width > 0 {
					spec += fmt.Sprint(width)
				}
				lit(fmt.Sprintf(spec+"d", goargs))
				continue
			}
			digits := st.symItoa(v)
			pad := byte(' ')
			if zero {
				pad = '0'
			}
			for k := len(digits); k < width; k++ {
				out = append(out, mkByte(pad))
			}
			out = append(out, digits...)
		case Str:
			if verb != 's' && verb != 'v' {
				unsupported("sprintf verb %%%c on symbolic string", verb)
			}
			out = append(out, v.bytes()...)
		default:
			n := st.toNativeV(e.V, e.T)
			lit(fmt.Sprintf("%"+string(verb), n))
		}
	}
	return normStr(out)
}

// symItoa returns the decimal digits of a non-negative symbolic integer, forking on the digit count.
func (st *State) symItoa(v Int) []Value {
	if v.Signed {
		if st.decide(tCmp("bvslt", v.T, bvConst(v.W, 0))) {
			unsupported("decimal formatting of negative symbolic integer")
		}
	}
	nd := 1
	pow := uint64(10)
	for nd < 20 {
		if pow > mask(v.W) {
			break
		}
		if st.decide(tCmp("bvult", v.T, bvConst(v.W, pow))) {
			break
		}
		nd++
		if pow > (1<<63)/5 {
			break
		}
		pow *= 10
	}
	out := make([]Value, nd)
	p := uint64(1)
	for k := nd - 1; k >= 0; k-- {
		q := v.T
		if p > 1 {
			q = tBV("bvudiv", q, bvConst(v.W, p))
		}
		d := tBV("bvurem", q, bvConst(v.W, 10))
		out[k] = mkIntT(8, false, tBV("bvadd", tExtract(d, 7, 0), bvConst(8, '0')))
		p *= 10
	}
	return out
}

// ---- ideal signatures and opaque keys ----

// keyID identifies a key by the heap object that holds it (public keys obtained through
// PrivateKey.Public() share the object of their private key).
func keyID(v Value) (int, bool) {
	switch x := v.(type) {
	case Iface:
		if x.T == nil {
			return 0, false
		}
		return keyID(x.V)
	case Ptr:
		if x.Obj == 0 {
			return 0, false
		}
		return x.Obj, true
	}
	return 0, false
}

type sigEntry struct {
	key    int
	digest string
}

func pseudoSig(key int, digest []byte, n int) []byte {
	h := sha256Sum(append([]byte(fmt.Sprintf("symgo-sig:%d:", key)), digest...))
	out := make([]byte, n)
	for i := range out {
		out[i] = h[i%32] ^ byte(i/32)
	}
	return out
}

func registerCryptoIntrinsics(in *Interp) {
	I := in.intrins
	I["crypto/x509.MarshalPKIXPublicKey"] = func(st *State, fr *Frame, a []Value, _ ssa.Value) (Value, int) {
		id, ok := keyID(a[0])
		if !ok {
			return done(Tuple{Slice{}, st.mkError("x509: unsupported public key type")})
		}
		return done(Tuple{st.newByteSlice([]byte(fmt.Sprintf("PKIX-SPKI-of-key-%06d", id))), Iface{}})
	}
	// ECDSA: deterministic ideal signatures. Sign records (key, digest); Verify accepts exactly the
	// recorded signature of a recorded (key, digest) pair.
	sign := func(st *State, key int, digest Slice) Slice {
		d, ok := st.concBytes(digest)
		if !ok {
			unsupported("signing a symbolic digest (digests are concrete under the hash oracle)")
		}
		st.sigs = append(st.sigs[:len(st.sigs):len(st.sigs)], sigEntry{key, string(d)})
		return st.newByteSlice(pseudoSig(key, d, 16))
	}
	I["(*crypto/ecdsa.PrivateKey).Sign"] = func(st *State, fr *Frame, a []Value, _ ssa.Value) (Value, int) {
		id, _ := keyID(a[0])
		return done(Tuple{sign(st, id, a[2].(Slice)), Iface{}})
	}
	I["crypto/ecdsa.SignASN1"] = func(st *State, fr *Frame, a []Value, _ ssa.Value) (Value, int) {
		id, _ := keyID(a[1])
		return done(Tuple{sign(st, id, a[2].(Slice)), Iface{}})
	}
	I["crypto/ecdsa.VerifyASN1"] = func(st *State, fr *Frame, a []Value, _ ssa.Value) (Value, int) {
		id, ok := keyID(a[0])
		if !ok {
			return done(Bool{})
		}
		d, okd := st.concBytes(a[1].(Slice))
		if !okd {
			unsupported("verifying a symbolic digest")
		}
		signed := false
		for _, s := range st.sigs {
			if s.key == id && s.digest == string(d) {
				signed = true
			}
		}
		if !signed {
			return done(Bool{})
		}
		want := st.newByteSlice(pseudoSig(id, d, 16))
		return done(mkBoolT(st.bytesEq(a[2].(Slice), want)))
	}
	I["(*crypto/ecdsa.PrivateKey).Public"] = func(st *State, fr *Frame, a []Value, _ ssa.Value) (Value, int) {
		p := a[0].(Ptr)
		t := st.in.prog.ImportedPackage("crypto/ecdsa").Type("PublicKey").Type()
		return done(Iface{T: types.NewPointer(t), V: Ptr{Obj: p.Obj, Path: extend(p.Path, 0)}})
	}
	// verifNewECDSAKey() *ecdsa.PrivateKey: an opaque key object
	I["verif:verifNewECDSAKey"] = func(st *State, fr *Frame, a []Value, _ ssa.Value) (Value, int) {
		t := st.in.prog.ImportedPackage("crypto/ecdsa").Type("PrivateKey").Type()
		return done(Ptr{Obj: st.alloc(t)})
	}
}

func sha256Sum(b []byte) [32]byte { return sha256.Sum256(b) }

// ---- base64 with interning of symbolic payloads (DESIGN.md §2.6) ----

const internPrefix = "SYMGO+INTERNED+"

// intern returns a concrete id for a payload with symbolic bytes; payloads that are equal get the
// same id (equality with every earlier payload of the same length is decided eagerly by forking).
func (st *State) intern(payload []Value) int {
	for i, p := range st.interned {
		if len(p.B) != len(payload) {
			continue
		}
		if st.decide(valsEq(payload, p.B)) {
			return i
		}
	}
	st.interned = append(st.interned[:len(st.interned):len(st.interned)], Str{B: append([]Value{}, payload...)})
	return len(st.interned) - 1
}

func registerBase64Intrinsics(in *Interp) {
	I := in.intrins
	encOf := func(st *State, p Ptr) *base64.Encoding {
		// the four standard encodings are distinguished by their global variable
		for _, name := range []string{"StdEncoding", "URLEncoding", "RawStdEncoding", "RawURLEncoding"} {
			g := st.in.prog.ImportedPackage("encoding/base64").Var(name)
			if g == nil {
				continue
			}
			v := st.load(Ptr{Obj: st.in.globalID(g)})
			if gp, ok := v.(Ptr); ok && gp.Obj == p.Obj {
				switch name {
				case "StdEncoding":
					return base64.StdEncoding
				case "URLEncoding":
					return base64.URLEncoding
				case "RawStdEncoding":
					return base64.RawStdEncoding
				case "RawURLEncoding":
					return base64.RawURLEncoding
				}
			}
		}
		return nil
	}
	I["(*encoding/base64.Encoding).EncodeToString"] = func(st *State, fr *Frame, a []Value, _ ssa.Value) (Value, int) {
		enc := encOf(st, a[0].(Ptr))
		if enc == nil {
			return nil, hNo
		}
		src := a[1].(Slice)
		if b, ok := st.concBytes(src); ok {
			return done(Str{S: enc.EncodeToString(b)})
		}
		id := st.intern(st.sliceVals(src))
		s := fmt.Sprintf("%s%06d+", internPrefix, id)
		for len(s) < enc.EncodedLen(src.Len) {
			s += "A"
		}
		return done(Str{S: s})
	}
	I["(*encoding/base64.Encoding).DecodeString"] = func(st *State, fr *Frame, a []Value, _ ssa.Value) (Value, int) {
		enc := encOf(st, a[0].(Ptr))
		s := a[1].(Str)
		if enc == nil || s.B != nil {
			return nil, hNo
		}
		if strings.HasPrefix(s.S, internPrefix) {
			var id int
			fmt.Sscanf(s.S[len(internPrefix):], "%06d", &id)
			if id < 0 || id >= len(st.interned) {
				return done(Tuple{Slice{}, st.mkError("illegal base64 data (dangling interned payload)")})
			}
			return done(Tuple{st.newSliceOf(st.interned[id].B, types.Typ[types.Uint8]), Iface{}})
		}
		b, err := enc.DecodeString(s.S)
		if err != nil {
			return done(Tuple{st.newByteSlice(b), st.mkError("illegal base64 data")})
		}
		return done(Tuple{st.newByteSlice(b), Iface{}})
	}
	I["encoding/hex.EncodeToString"] = func(st *State, fr *Frame, a []Value, _ ssa.Value) (Value, int) {
		b, ok := st.concBytes(a[0].(Slice))
		if !ok {
			return nil, hNo
		}
		return done(Str{S: hex.EncodeToString(b)})
	}

	// ---- ML-DSA (filippo.io/mldsa): opaque keys, ideal deterministic signatures ----
	const mldsaSigSize = 2420
	I["(*filippo.io/mldsa.PrivateKey).Public"] = func(st *State, fr *Frame, a []Value, _ ssa.Value) (Value, int) {
		t := st.in.prog.ImportedPackage("filippo.io/mldsa").Type("PublicKey").Type()
		return done(Iface{T: types.NewPointer(t), V: a[0]})
	}
	I["(*filippo.io/mldsa.PrivateKey).PublicKey"] = func(st *State, fr *Frame, a []Value, _ ssa.Value) (Value, int) { return done(a[0]) }
	I["(*filippo.io/mldsa.PublicKey).Parameters"] = func(st *State, fr *Frame, a []Value, _ ssa.Value) (Value, int) { return done(Ptr{}) }
	I["filippo.io/mldsa.MLDSA44"] = func(st *State, fr *Frame, a []Value, _ ssa.Value) (Value, int) { return done(Ptr{}) }
	I["(*filippo.io/mldsa.PublicKey).Bytes"] = func(st *State, fr *Frame, a []Value, _ ssa.Value) (Value, int) {
		id, _ := keyID(a[0])
		return done(st.newByteSlice([]byte(fmt.Sprintf("MLDSA44-public-key-%06d", id))))
	}
	I["(*filippo.io/mldsa.PublicKey).Equal"] = func(st *State, fr *Frame, a []Value, _ ssa.Value) (Value, int) {
		x, _ := keyID(a[0])
		y, ok := keyID(a[1])
		return done(Bool{C: ok && x == y})
	}
	msgDigest := func(st *State, msg Slice) []byte {
		d := st.hashOracle(st.sliceVals(msg))
		return d[:]
	}
	I["(*filippo.io/mldsa.PrivateKey).Sign"] = func(st *State, fr *Frame, a []Value, _ ssa.Value) (Value, int) {
		id, _ := keyID(a[0])
		d := msgDigest(st, a[2].(Slice))
		st.sigs = append(st.sigs[:len(st.sigs):len(st.sigs)], sigEntry{id, string(d)})
		return done(Tuple{st.newByteSlice(pseudoSig(id, d, mldsaSigSize)), Iface{}})
	}
	I["(*filippo.io/mldsa.PrivateKey).SignDeterministic"] = func(st *State, fr *Frame, a []Value, _ ssa.Value) (Value, int) {
		id, _ := keyID(a[0])
		d := msgDigest(st, a[1].(Slice))
		st.sigs = append(st.sigs[:len(st.sigs):len(st.sigs)], sigEntry{id, string(d)})
		return done(Tuple{st.newByteSlice(pseudoSig(id, d, mldsaSigSize)), Iface{}})
	}
	I["filippo.io/mldsa.Verify"] = func(st *State, fr *Frame, a []Value, _ ssa.Value) (Value, int) {
		id, ok := keyID(a[0])
		bad := st.mkError("mldsa: invalid signature")
		if !ok {
			return done(bad)
		}
		d := msgDigest(st, a[1].(Slice))
		signed := false
		for _, s := range st.sigs {
			if s.key == id && s.digest == string(d) {
				signed = true
			}
		}
		if !signed {
			return done(bad)
		}
		want := st.newByteSlice(pseudoSig(id, d, mldsaSigSize))
		if st.decide(st.bytesEq(a[2].(Slice), want)) {
			return done(Iface{})
		}
		return done(bad)
	}
	// ---- Ed25519: opaque 64-byte private keys (seed ‖ pseudo public key), ideal deterministic signatures ----
	edKeyID := func(st *State, pub []Value) int {
		b := make([]byte, len(pub))
		for i, v := range pub {
			if v.(Int).T != nil {
				unsupported("symbolic Ed25519 key")
			}
			b[i] = byte(v.(Int).C)
		}
		h := sha256Sum(b)
		return int(h[0])<<24 | int(h[1])<<16 | int(h[2])<<8 | int(h[3]) | 1<<40
	}
	I["crypto/ed25519.NewKeyFromSeed"] = func(st *State, fr *Frame, a []Value, _ ssa.Value) (Value, int) {
		seed, ok := st.concBytes(a[0].(Slice))
		if !ok || len(seed) != 32 {
			unsupported("ed25519.NewKeyFromSeed with symbolic or malformed seed")
		}
		pub := sha256Sum(append([]byte("ed25519-public-of:"), seed...))
		return done(st.newByteSlice(append(append([]byte{}, seed...), pub[:]...)))
	}
	I["(crypto/ed25519.PrivateKey).Sign"] = func(st *State, fr *Frame, a []Value, _ ssa.Value) (Value, int) {
		priv := st.sliceVals(a[0].(Slice))
		id := edKeyID(st, priv[32:])
		d := msgDigest(st, a[2].(Slice))
		st.sigs = append(st.sigs[:len(st.sigs):len(st.sigs)], sigEntry{id, string(d)})
		return done(Tuple{st.newByteSlice(pseudoSig(id, d, 64)), Iface{}})
	}
	I["crypto/ed25519.Sign"] = func(st *State, fr *Frame, a []Value, _ ssa.Value) (Value, int) {
		priv := st.sliceVals(a[0].(Slice))
		id := edKeyID(st, priv[32:])
		d := msgDigest(st, a[1].(Slice))
		st.sigs = append(st.sigs[:len(st.sigs):len(st.sigs)], sigEntry{id, string(d)})
		return done(st.newByteSlice(pseudoSig(id, d, 64)))
	}
	I["crypto/ed25519.Verify"] = func(st *State, fr *Frame, a []Value, _ ssa.Value) (Value, int) {
		id := edKeyID(st, st.sliceVals(a[0].(Slice)))
		d := msgDigest(st, a[1].(Slice))
		signed := false
		for _, s := range st.sigs {
			if s.key == id && s.digest == string(d) {
				signed = true
			}
		}
		if !signed {
			return done(Bool{})
		}
		return done(mkBoolT(st.bytesEq(a[2].(Slice), st.newByteSlice(pseudoSig(id, d, 64)))))
	}
	I["verif:verifNewMLDSAKey"] = func(st *State, fr *Frame, a []Value, _ ssa.Value) (Value, int) {
		t := st.in.prog.ImportedPackage("filippo.io/mldsa").Type("PrivateKey").Type()
		return done(Ptr{Obj: st.alloc(t)})
	}
	// randomness: fixed (zero) values; harnesses that care stub these explicitly
	I["crypto/rand.Read"] = func(st *State, fr *Frame, a []Value, _ ssa.Value) (Value, int) {
		return done(Tuple{mkI64(int64(a[0].(Slice).Len)), Iface{}})
	}
	I["math/rand/v2.IntN"] = func(st *State, fr *Frame, a []Value, _ ssa.Value) (Value, int) { return done(mkI64(0)) }
	I["math/rand/v2.Int64N"] = func(st *State, fr *Frame, a []Value, _ ssa.Value) (Value, int) { return done(mkI64(0)) }
	I["math/rand/v2.Shuffle"] = func(st *State, fr *Frame, a []Value, _ ssa.Value) (Value, int) { return done(nil) }
}

// ---- locating HTTP handler closures registered inside a big function (cmd/skylight's main) ----

// findHandler returns the function literal passed to (*http.ServeMux).HandleFunc in fn with the given
// route pattern: a constant pattern, or a concatenation whose constant right operand is the pattern.
func findHandler(fn *ssa.Function, pattern string) *ssa.Function {
	for _, b := range fn.Blocks {
		for _, ins := range b.Instrs {
			call, ok := ins.(*ssa.Call)
			if !ok {
				continue
			}
			callee := call.Call.StaticCallee()
			if callee == nil || (callee.Name() != "HandleFunc" && callee.Name() != "Handle") {
				continue
			}
			args := call.Call.Args
			matched := false
			var handler ssa.Value
			for _, a := range args {
				switch v := a.(type) {
				case *ssa.Const:
					if v.Value != nil && v.Value.Kind() == constant.String && constant.StringVal(v.Value) == pattern {
						matched = true
					}
				case *ssa.BinOp:
					if c, ok := v.Y.(*ssa.Const); ok && c.Value != nil && c.Value.Kind() == constant.String && constant.StringVal(c.Value) == pattern {
						matched = true
					}
				}
				if _, isSig := a.Type().Underlying().(*types.Signature); isSig {
					handler = a
				}
			}
			if !matched || handler == nil {
				continue
			}
			for {
				switch h := handler.(type) {
				case *ssa.MakeClosure:
					return h.Fn.(*ssa.Function)
				case *ssa.Function:
					return h
				case *ssa.ChangeType:
					handler = h.X
					continue
				}
				break
			}
		}
	}
	return nil
}

func registerHandlerIntrinsics(in *Interp) {
	I := in.intrins
	// verifBindHandler(enclosing, pattern, names, ptrs...) func(http.ResponseWriter, *http.Request):
	// the closure registered for `pattern` inside function `enclosing`, with its captured variables
	// (by name, comma separated) bound to the given pointers; other captured variables are zero.
	I["verif:verifBindHandler"] = func(st *State, fr *Frame, a []Value, _ ssa.Value) (Value, int) {
		encl := st.in.mainPkg.Func(strArg(a[0]))
		if encl == nil {
			unsupported("verifBindHandler: no function %s", strArg(a[0]))
		}
		fn := findHandler(encl, strArg(a[1]))
		if fn == nil {
			unsupported("verifBindHandler: no handler registered for %q in %s", strArg(a[1]), strArg(a[0]))
		}
		var names []string
		if s := strArg(a[2]); s != "" {
			names = strings.Split(s, ",")
		}
		vals := st.sliceVals(a[3].(Slice))
		env := make([]Value, len(fn.FreeVars))
		for i, fv := range fn.FreeVars {
			env[i] = zero(fv.Type())
			if pt, ok := fv.Type().Underlying().(*types.Pointer); ok {
				// captured variables are cells: unbound ones get a fresh zero-valued cell
				env[i] = Ptr{Obj: st.alloc(pt.Elem())}
			}
			for k, n := range names {
				if n == fv.Name() && k < len(vals) {
					env[i] = vals[k].(Iface).V
				}
			}
		}
		return done(Func{Fn: fn, Env: env})
	}
}
