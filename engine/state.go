package main

import (
	"fmt"
	"go/constant"
	"go/types"
	"sync"
	"sync/atomic"

	"golang.org/x/tools/go/ssa"
)

type FnInfo struct {
	num     map[ssa.Value]int
	nregs   int
	fvIdx   map[*ssa.FreeVar]int
	hasLoop bool
}

type deferred struct {
	fn   Func
	args []Value
}

type Frame struct {
	fn     *ssa.Function
	info   *FnInfo
	block  *ssa.BasicBlock
	prev   *ssa.BasicBlock
	pc     int
	regs   []Value
	env    []Value
	defers []deferred

	resultTo       ssa.Value // register of the caller receiving the result (nil: discard)
	isDeferredCall bool      // started by the caller's RunDefers / unwinding
	syncMarker     bool      // frame pushed by callSync: returning from it stops the nested run
	goRoot         bool      // bottom frame of a goroutine

	panicking bool
	recovered bool
	visits    []int32 // per-block entry counts (unwinding bound)
}

const (
	gRunnable = iota
	gBlocked
	gYield
	gDone
)

type Goroutine struct {
	id       int
	frames   []*Frame
	panicVal *Iface
	status   int
	wakeSeen int64
	held     []int // object ids of mutexes held (lockset)
	why      string
}

type NondetVar struct {
	Name   string
	Kind   string // bool | int | byte
	W      uint8
	T      *Term
	Serial int64
	Idx    int
}

type hashEntry struct {
	in  []Value // input bytes (Int W=8)
	out [32]byte
}

type tryRec struct {
	snap  *State
	depth int // frame depth of the goroutine when TryRun started
	gid   int
	res   ssa.Value
}

// Outcome of a finished path.
const (
	stRunning = iota
	stOK
	stInfeasible
	stPanic
	stDeadlock
	stUnwind
	stStepLimit
	stEngineErr
	stInconclusive
	stAssumeFalse
)

type Violation struct {
	Kind  string            `json:"kind"` // assert | panic | deadlock
	Msg   string            `json:"msg"`
	Where string            `json:"where"`
	Model map[string]uint64 `json:"-"`
	Order []NondetVal       `json:"nondets"`
	Trace []string          `json:"trace,omitempty"`
}

type NondetVal struct {
	Name string `json:"name"`
	W    uint8  `json:"w"`
	V    uint64 `json:"v"`
}

type State struct {
	in    *Interp
	w     *Worker
	epoch int64
	objs  []*Object
	gs    []*Goroutine
	cur   int
	pc    *PC
	wake  int64

	nondets  []NondetVar
	nameCtr  map[string]int
	hashes   []hashEntry
	interned []Str

	// decisions taken while executing the current instruction, and decisions forced on re-execution
	decs   []bool
	forced []bool
	fpos   int

	tryStack  []*tryRec
	reach     []string
	trace     []string
	locks     map[int]int // mutex object id -> holder goroutine id+1 (0 = free); RW readers negative count
	wgs       map[int]int
	syncDepth int

	tickers         []int
	panicWhere      string
	sigs            []sigEntry
	replay          map[string]uint64 // replay mode: concrete values for nondets
	viols           []Violation
	unwindViolation bool
	serial          int64 // instruction serial (not advanced on re-execution)
	reexec          bool
	ndIdx           int // nondets created by the current instruction

	steps       int64
	status      int
	msg         string
	retval      Value
	uncaught    *Iface
	symBranches int
	asserts     int
}

var epochCounter atomic.Int64

func newEpoch() int64 { return epochCounter.Add(1) }

func (st *State) newObj(o *Object) int {
	o.Epoch = st.epoch
	st.objs = append(st.objs, o)
	return len(st.objs) - 1
}

// fork returns a copy of st sharing objects copy-on-write.
func (st *State) fork() *State {
	n := &State{in: st.in, w: st.w, pc: st.pc, cur: st.cur, wake: st.wake, steps: st.steps,
		symBranches: st.symBranches, asserts: st.asserts, syncDepth: st.syncDepth, replay: st.replay,
		serial: st.serial, reexec: true}
	st.epoch = newEpoch() // the parent also loses ownership of current objects
	n.epoch = newEpoch()
	n.objs = append(make([]*Object, 0, len(st.objs)+16), st.objs...)
	n.gs = make([]*Goroutine, len(st.gs))
	for gi, g := range st.gs {
		ng := &Goroutine{id: g.id, status: g.status, wakeSeen: g.wakeSeen, why: g.why}
		ng.held = append([]int(nil), g.held...)
		ng.frames = make([]*Frame, len(g.frames))
		for i, f := range g.frames {
			c := *f
			c.regs = append([]Value(nil), f.regs...)
			if len(f.defers) > 0 {
				c.defers = append([]deferred(nil), f.defers...)
			}
			if f.visits != nil {
				c.visits = append([]int32(nil), f.visits...)
			}
			ng.frames[i] = &c
		}
		if g.panicVal != nil {
			p := *g.panicVal
			ng.panicVal = &p
		}
		n.gs[gi] = ng
	}
	n.nondets = st.nondets[:len(st.nondets):len(st.nondets)]
	n.hashes = st.hashes[:len(st.hashes):len(st.hashes)]
	n.interned = st.interned[:len(st.interned):len(st.interned)]
	n.reach = st.reach[:len(st.reach):len(st.reach)]
	n.trace = st.trace[:len(st.trace):len(st.trace)]
	n.tryStack = st.tryStack[:len(st.tryStack):len(st.tryStack)]
	n.tickers = st.tickers[:len(st.tickers):len(st.tickers)]
	n.sigs = st.sigs[:len(st.sigs):len(st.sigs)]
	if st.nameCtr != nil {
		n.nameCtr = make(map[string]int, len(st.nameCtr))
		for k, v := range st.nameCtr {
			n.nameCtr[k] = v
		}
	}
	if st.locks != nil {
		n.locks = make(map[int]int, len(st.locks))
		for k, v := range st.locks {
			n.locks[k] = v
		}
	}
	if st.wgs != nil {
		n.wgs = make(map[int]int, len(st.wgs))
		for k, v := range st.wgs {
			n.wgs[k] = v
		}
	}
	return n
}

func (st *State) wobj(id int) *Object {
	o := st.objs[id]
	if o == nil {
		o = st.in.lazyGlobal(st, id)
	}
	if o.Epoch != st.epoch {
		o = o.clone(st.epoch)
		st.objs[id] = o
	}
	return o
}

func (st *State) robj(id int) *Object {
	o := st.objs[id]
	if o == nil {
		o = st.in.lazyGlobal(st, id)
	}
	return o
}

func (st *State) g() *Goroutine { return st.gs[st.cur] }

func (st *State) top() *Frame {
	g := st.gs[st.cur]
	return g.frames[len(g.frames)-1]
}

var infoMu sync.Mutex

func (in *Interp) info(fn *ssa.Function) *FnInfo {
	infoMu.Lock()
	defer infoMu.Unlock()
	if fi, ok := in.infos[fn]; ok {
		return fi
	}
	fi := &FnInfo{num: map[ssa.Value]int{}, fvIdx: map[*ssa.FreeVar]int{}}
	n := 0
	for _, p := range fn.Params {
		fi.num[p] = n
		n++
	}
	for i, fv := range fn.FreeVars {
		fi.fvIdx[fv] = i
	}
	for _, b := range fn.Blocks {
		for _, i := range b.Instrs {
			if v, ok := i.(ssa.Value); ok {
				fi.num[v] = n
				n++
			}
		}
		for _, s := range b.Succs {
			if s.Index <= b.Index {
				fi.hasLoop = true
			}
		}
	}
	fi.nregs = n
	in.infos[fn] = fi
	return fi
}

func (st *State) get(fr *Frame, v ssa.Value) Value {
	switch v := v.(type) {
	case *ssa.Const:
		return constValue(v)
	case *ssa.Global:
		return Ptr{Obj: st.in.globalID(v)}
	case *ssa.Function:
		return Func{Fn: v}
	case *ssa.Builtin:
		return Func{Builtin: v}
	case *ssa.FreeVar:
		return fr.env[fr.info.fvIdx[v]]
	}
	if idx, ok := fr.info.num[v]; ok {
		r := fr.regs[idx]
		if r == nil {
			return zero(v.Type())
		}
		return r
	}
	panic(fmt.Sprintf("get: unknown value %T %v in %v", v, v, fr.fn))
}

func (st *State) set(fr *Frame, v ssa.Value, x Value) {
	fr.regs[fr.info.num[v]] = x
}

func (st *State) alloc(t types.Type) int {
	return st.newObj(newZeroObj(t))
}

func newZeroObj(t types.Type) *Object {
	o := &Object{Typ: t}
	switch t.Underlying().(type) {
	case *types.Struct:
		o.Agg = true
		o.Elems = []Value(zero(t).(Struct))
	case *types.Array:
		o.Agg = true
		o.Elems = []Value(zero(t).(Array))
	default:
		o.Elems = []Value{zero(t)}
	}
	return o
}

func constValue(c *ssa.Const) Value {
	t := c.Type()
	if c.Value == nil {
		if _, ok := t.Underlying().(*types.TypeParam); ok {
			panic("const of type parameter")
		}
		return zero(t)
	}
	if w, s, ok := intInfo(t); ok {
		if c.Value.Kind() == constant.Int {
			if s {
				i, _ := constant.Int64Val(c.Value)
				return mkInt(w, s, uint64(i))
			}
			u, exact := constant.Uint64Val(c.Value)
			if !exact {
				i, _ := constant.Int64Val(c.Value)
				u = uint64(i)
			}
			return mkInt(w, s, u)
		}
		if c.Value.Kind() == constant.Float {
			f, _ := constant.Float64Val(c.Value)
			return mkInt(w, s, uint64(int64(f)))
		}
	}
	switch b := t.Underlying().(type) {
	case *types.Basic:
		switch {
		case b.Info()&types.IsBoolean != 0:
			return Bool{C: constant.BoolVal(c.Value)}
		case b.Info()&types.IsString != 0:
			if c.Value.Kind() == constant.String {
				return Str{S: constant.StringVal(c.Value)}
			}
			i, _ := constant.Int64Val(c.Value)
			return Str{S: string(rune(i))}
		case b.Info()&types.IsFloat != 0:
			f, _ := constant.Float64Val(c.Value)
			return Float{F: f}
		case b.Info()&types.IsComplex != 0:
			re, _ := constant.Float64Val(constant.Real(c.Value))
			im, _ := constant.Float64Val(constant.Imag(c.Value))
			return Complex{C: complex(re, im)}
		}
	}
	panic(fmt.Sprintf("constValue: %v : %v", c.Value, t))
}

// ---- memory access through pointers ----

func getPath(v Value, path []int) Value {
	for _, i := range path {
		switch a := v.(type) {
		case Struct:
			v = a[i]
		case Array:
			if i < 0 || i >= len(a) {
				panic(goPanic{"index out of range (pointer past array)"})
			}
			v = a[i]
		default:
			panic(fmt.Sprintf("getPath through %T", v))
		}
	}
	return v
}

func setPath(v Value, path []int, x Value) Value {
	if len(path) == 0 {
		return x
	}
	switch a := v.(type) {
	case Struct:
		n := append(Struct(nil), a...)
		n[path[0]] = setPath(a[path[0]], path[1:], x)
		return n
	case Array:
		n := append(Array(nil), a...)
		n[path[0]] = setPath(a[path[0]], path[1:], x)
		return n
	}
	panic(fmt.Sprintf("setPath through %T", v))
}

func (st *State) load(p Ptr) Value {
	if p.Obj == 0 {
		panic(goPanic{"invalid memory address or nil pointer dereference"})
	}
	o := st.robj(p.Obj)
	if !o.Agg {
		return getPath(o.Elems[0], p.Path)
	}
	if len(p.Path) == 0 {
		if o.Typ != nil {
			if _, ok := o.Typ.Underlying().(*types.Struct); ok {
				return append(Struct(nil), o.Elems...)
			}
		}
		return append(Array(nil), o.Elems...)
	}
	if p.Path[0] >= len(o.Elems) {
		panic(goPanic{"index out of range (load past end)"})
	}
	return getPath(o.Elems[p.Path[0]], p.Path[1:])
}

func (st *State) store(p Ptr, x Value) {
	if p.Obj == 0 {
		panic(goPanic{"invalid memory address or nil pointer dereference"})
	}
	o := st.wobj(p.Obj)
	if !o.Agg {
		o.Elems[0] = setPath(o.Elems[0], p.Path, x)
		return
	}
	if len(p.Path) == 0 {
		switch a := x.(type) {
		case Struct:
			copy(o.Elems, a)
		case Array:
			copy(o.Elems, a)
		default:
			panic("store whole aggregate with non-aggregate")
		}
		return
	}
	o.Elems[p.Path[0]] = setPath(o.Elems[p.Path[0]], p.Path[1:], x)
}

func extend(path []int, i int) []int {
	n := make([]int, len(path)+1)
	copy(n, path)
	n[len(path)] = i
	return n
}

func (st *State) sliceElemPtr(s Slice, i int) Ptr {
	return Ptr{Obj: s.Obj, Path: extend(s.Path, s.Off+i)}
}

// sliceGet / sliceSet are fast paths for element access of top-level slices.
func (st *State) sliceGet(s Slice, i int) Value {
	if len(s.Path) == 0 {
		o := st.robj(s.Obj)
		if o.Agg {
			return o.Elems[s.Off+i]
		}
	}
	return st.load(st.sliceElemPtr(s, i))
}

func (st *State) sliceSet(s Slice, i int, v Value) {
	if len(s.Path) == 0 {
		o := st.wobj(s.Obj)
		if o.Agg {
			o.Elems[s.Off+i] = v
			return
		}
	}
	st.store(st.sliceElemPtr(s, i), v)
}

func (st *State) sliceVals(s Slice) []Value {
	out := make([]Value, s.Len)
	for i := range out {
		out[i] = st.sliceGet(s, i)
	}
	return out
}

func (st *State) newSliceOf(vals []Value, et types.Type) Slice {
	elems := append([]Value(nil), vals...)
	var at types.Type
	if et != nil {
		at = types.NewArray(et, int64(len(vals)))
	}
	id := st.newObj(&Object{Agg: true, Elems: elems, Typ: at})
	return Slice{Obj: id, Len: len(vals), Cap: len(vals)}
}

func (st *State) newByteSlice(b []byte) Slice {
	vals := make([]Value, len(b))
	for i, c := range b {
		vals[i] = mkByte(c)
	}
	return st.newSliceOf(vals, types.Typ[types.Uint8])
}

// concBytes returns the concrete bytes of a slice, ok=false if any byte is symbolic.
func (st *State) concBytes(s Slice) ([]byte, bool) {
	out := make([]byte, s.Len)
	for i := 0; i < s.Len; i++ {
		v := st.sliceGet(s, i).(Int)
		if v.T != nil {
			return nil, false
		}
		out[i] = byte(v.C)
	}
	return out, true
}

type goPanic struct{ msg string }

// engineErr aborts the current path as an engine limitation (inconclusive, never a violation).
type engineErr struct{ msg string }

func unsupported(format string, args ...any) {
	panic(engineErr{fmt.Sprintf(format, args...)})
}
