package main

import (
	"fmt"
	"go/ast"
	"go/types"
	"os"
	"sort"
	"strings"
	"sync"

	"golang.org/x/tools/go/packages"
	"golang.org/x/tools/go/ssa"
	"golang.org/x/tools/go/ssa/ssautil"
)

type Config struct {
	MaxSteps  int64
	MaxDepth  int
	Unwind    int
	Debug     bool
	Solver    string
	TimeoutMs int
	MaxPaths  int64
}

type Intrinsic func(st *State, fr *Frame, args []Value, resultTo ssa.Value) (Value, int)

type Interp struct {
	prog     *ssa.Program
	pkgs     []*packages.Package
	mainPkg  *ssa.Package
	infos    map[*ssa.Function]*FnInfo
	globals  map[*ssa.Global]int
	globList []*ssa.Global
	intrins  map[string]Intrinsic
	intrinFn sync.Map // *ssa.Function -> Intrinsic or nil
	stubs    map[*ssa.Function]*ssa.Function
	stubList []string
	cutPkgs  []string
	cutFns   map[string]bool
	initDeny []string
	unwindBy map[string]int
	cfg      Config

	runtimeErrT types.Type
	repoPrefix  string
	base        *State // state after package initialisation; forked for every case
}

var methMu sync.Mutex

func (in *Interp) unwindFor(fn *ssa.Function) int {
	if len(in.unwindBy) > 0 {
		if n, ok := in.unwindBy[fn.String()]; ok {
			return n
		}
	}
	return in.cfg.Unwind
}

func (in *Interp) globalID(g *ssa.Global) int {
	id, ok := in.globals[g]
	if !ok {
		panic(engineErr{"unknown global " + g.String()})
	}
	return id
}

// lazyGlobal materialises the zero value of a global the first time a state touches it.
func (in *Interp) lazyGlobal(st *State, id int) *Object {
	if id <= 0 || id > len(in.globList) {
		panic(engineErr{fmt.Sprintf("dangling object id %d", id)})
	}
	g := in.globList[id-1]
	o := newZeroObj(g.Type().(*types.Pointer).Elem())
	o.Epoch = st.epoch
	st.objs[id] = o
	return o
}

var defaultCut = []string{
	"log/slog", "log", "github.com/prometheus", "runtime/debug", "runtime/pprof", "runtime/trace",
	"expvar", "net/http/httptrace", "internal/godebug", "internal/race", "internal/msan", "internal/asan",
	"filippo.io/sunlight/internal/stdlog", "internal/reflectlite",
}

// packages whose initialisers are not executed (their globals keep zero values); calls into them
// are expected to be intercepted by intrinsics, stubs or the native bridge.
var defaultInitDeny = []string{
	"runtime", "reflect", "internal/reflectlite", "syscall", "os", "net", "time", "crypto", "sync", "internal/",
	"log", "testing", "flag", "unsafe", "math/rand", "math/big", "vendor/", "golang.org/x/sys", "golang.org/x/net",
	"github.com/aws", "github.com/prometheus", "crawshaw.io", "github.com/google/certificate-transparency-go",
	"google.golang.org", "github.com/go-logr", "k8s.io", "go.opentelemetry.io", "golang.org/x/text", "mime", "html",
	"text/template", "encoding/json", "encoding/xml", "encoding/gob", "encoding/asn1", "compress/zlib", "compress/lzw", "compress/bzip2", "archive/zip", "database/",
	"hash/", "regexp", "expvar", "filippo.io/mldsa", "filippo.io/edwards25519", "filippo.io/bigmod", "filippo.io/keygen",
	"golang.org/x/crypto/", "github.com/cespare", "gopkg.in", "go/", "text/", "embed", "iter", "weak", "unique", "fmt",
	"golang.org/x/sync", "golang.org/x/term", "golang.org/x/time", "github.com/google/trillian", "github.com/jackc",
	"github.com/go-sql-driver", "github.com/hashicorp", "github.com/munnerz", "github.com/beorn7", "github.com/kr",
	"filippo.io/sunlight/internal/heavyhitter", "filippo.io/sunlight/internal/reused", "filippo.io/sunlight/internal/keylog", "filippo.io/sunlight/internal/frequent", "golang.org/x/crypto/acme",
}

var defaultInitAllow = []string{
	"golang.org/x/crypto/cryptobyte", "internal/bytealg", "internal/byteorder", "internal/itoa", "internal/stringslite",
	"internal/oserror", "internal/filepathlite", "io/fs",
}

func (in *Interp) initAllowed(path string) bool {
	for _, a := range defaultInitAllow {
		if path == a || strings.HasPrefix(path, a+"/") {
			return true
		}
	}
	if in.cutPath(path) {
		return false
	}
	for _, d := range in.initDeny {
		if path == strings.TrimSuffix(d, "/") || strings.HasPrefix(path, d) && (strings.HasSuffix(d, "/") || strings.HasPrefix(path, d+"/")) {
			return false
		}
	}
	return true
}

type LoadSpec struct {
	Dir     string            // module directory (/repo)
	Pkg     string            // package import path pattern
	Tags    string            // build tags
	Overlay map[string]string // virtual path -> real path
}

func load(spec LoadSpec, cfg Config) (*Interp, error) {
	ov := map[string][]byte{}
	for v, r := range spec.Overlay {
		b, err := os.ReadFile(r)
		if err != nil {
			return nil, err
		}
		ov[v] = b
	}
	pc := &packages.Config{Mode: packages.LoadAllSyntax, Dir: spec.Dir, Overlay: ov}
	if spec.Tags != "" {
		pc.BuildFlags = []string{"-tags=" + spec.Tags}
	}
	pkgs, err := packages.Load(pc, spec.Pkg)
	if err != nil {
		return nil, err
	}
	nerr := 0
	packages.Visit(pkgs, nil, func(p *packages.Package) {
		for _, e := range p.Errors {
			if nerr < 20 {
				fmt.Fprintln(os.Stderr, "load error:", e)
			}
			nerr++
		}
	})
	if nerr > 0 {
		return nil, fmt.Errorf("%d package load errors", nerr)
	}
	prog, spkgs := ssautil.AllPackages(pkgs, ssa.InstantiateGenerics)
	prog.Build()
	in := &Interp{prog: prog, pkgs: pkgs, infos: map[*ssa.Function]*FnInfo{}, globals: map[*ssa.Global]int{},
		intrins: map[string]Intrinsic{}, stubs: map[*ssa.Function]*ssa.Function{}, cutFns: map[string]bool{},
		cutPkgs: append([]string(nil), defaultCut...), initDeny: defaultInitDeny, cfg: cfg, unwindBy: map[string]int{}}
	in.mainPkg = spkgs[0]
	// fixed object ids for all globals
	var all []*ssa.Global
	for _, p := range prog.AllPackages() {
		for _, m := range p.Members {
			if g, ok := m.(*ssa.Global); ok {
				all = append(all, g)
			}
		}
	}
	sort.Slice(all, func(i, j int) bool {
		if all[i].Pkg.Pkg.Path() != all[j].Pkg.Pkg.Path() {
			return all[i].Pkg.Pkg.Path() < all[j].Pkg.Pkg.Path()
		}
		return all[i].Name() < all[j].Name()
	})
	for i, g := range all {
		in.globals[g] = i + 1
	}
	in.globList = all
	if rp := prog.ImportedPackage("runtime"); rp != nil {
		if e := rp.Type("Error"); e != nil {
			in.runtimeErrT = types.NewNamed(types.NewTypeName(0, rp.Pkg, "verifRuntimeError", nil), types.Typ[types.String], nil)
		}
	}
	if in.runtimeErrT == nil {
		in.runtimeErrT = types.Typ[types.String]
	}
	registerIntrinsics(in)
	if err := in.collectStubs(pkgs[0]); err != nil {
		return nil, err
	}
	return in, nil
}

// collectStubs reads //verif:stub, //verif:cut and //verif:unwind directives from the harness files.
func (in *Interp) collectStubs(p *packages.Package) error {
	byName := map[string]*ssa.Function{}
	for fn := range ssautil.AllFunctions(in.prog) {
		byName[fn.String()] = fn
	}
	for _, f := range p.Syntax {
		fname := p.Fset.Position(f.Pos()).Filename
		if !strings.Contains(fname, "zz_verif") {
			continue
		}
		for _, cg := range f.Comments {
			for _, c := range cg.List {
				t := strings.TrimSpace(strings.TrimPrefix(c.Text, "//"))
				if rest, ok := strings.CutPrefix(t, "verif:cut "); ok {
					for _, n := range strings.Fields(rest) {
						if strings.HasSuffix(n, "/...") {
							in.cutPkgs = append(in.cutPkgs, strings.TrimSuffix(n, "/..."))
						} else {
							in.cutFns[n] = true
						}
					}
				}
				if rest, ok := strings.CutPrefix(t, "verif:unwind "); ok {
					fs := strings.Fields(rest)
					if len(fs) == 2 {
						var n int
						fmt.Sscan(fs[1], &n)
						in.unwindBy[fs[0]] = n
					}
				}
			}
		}
		for _, d := range f.Decls {
			fd, ok := d.(*ast.FuncDecl)
			if !ok || fd.Doc == nil {
				continue
			}
			for _, c := range fd.Doc.List {
				t := strings.TrimSpace(strings.TrimPrefix(c.Text, "//"))
				rest, ok := strings.CutPrefix(t, "verif:stub ")
				if !ok {
					continue
				}
				target := strings.TrimSpace(rest)
				tf := byName[target]
				if tf == nil {
					return fmt.Errorf("%s: stub target %q not found", fd.Name.Name, target)
				}
				sf := in.mainPkg.Func(fd.Name.Name)
				if sf == nil {
					return fmt.Errorf("stub function %s not found in SSA", fd.Name.Name)
				}
				in.stubs[tf] = sf
				in.stubList = append(in.stubList, target+" -> "+fd.Name.Name)
			}
		}
	}
	sort.Strings(in.stubList)
	return nil
}

// ---- workers and exploration ----

type Worker struct {
	id              int
	in              *Interp
	solver          *SolverMux
	queue           *Queue
	fns             map[*ssa.Function]int
	approx          map[string]bool
	concretizations int64
	forks           int64
}

func (w *Worker) noteFn(fn *ssa.Function) { w.fns[fn]++ }

func (w *Worker) push(s *State) {
	w.forks++
	w.queue.push(s)
}

// Queue is a LIFO of open states shared by the workers of one case.
type Queue struct {
	mu      sync.Mutex
	cond    *sync.Cond
	items   []*State
	active  int
	stopped bool
}

func newQueue() *Queue {
	q := &Queue{}
	q.cond = sync.NewCond(&q.mu)
	return q
}

func (q *Queue) push(s *State) {
	q.mu.Lock()
	q.items = append(q.items, s)
	q.mu.Unlock()
	q.cond.Signal()
}

// pop blocks until a state is available or all workers are idle with an empty queue.
func (q *Queue) pop() *State {
	q.mu.Lock()
	defer q.mu.Unlock()
	for {
		if q.stopped {
			return nil
		}
		if n := len(q.items); n > 0 {
			s := q.items[n-1]
			q.items = q.items[:n-1]
			q.active++
			return s
		}
		if q.active == 0 {
			q.stopped = true
			q.cond.Broadcast()
			return nil
		}
		q.cond.Wait()
	}
}

func (q *Queue) done() {
	q.mu.Lock()
	q.active--
	if q.active == 0 && len(q.items) == 0 {
		q.stopped = true
		q.cond.Broadcast()
	}
	q.mu.Unlock()
}

func (q *Queue) stop() {
	q.mu.Lock()
	q.stopped = true
	q.cond.Broadcast()
	q.mu.Unlock()
}
