package main

import (
	"fmt"
	"go/token"
	"go/types"
	"math"
	"strings"
	"unicode/utf8"

	"golang.org/x/tools/go/ssa"
)

func (st *State) binop(op token.Token, x, y Value, xt types.Type) Value {
	switch a := x.(type) {
	case Int:
		b, ok := y.(Int)
		if !ok {
			panic(fmt.Sprintf("binop int with %T", y))
		}
		if a.T != nil || b.T != nil {
			return st.symBinop(op, a, b)
		}
		w, s := a.W, a.Signed
		switch op {
		case token.ADD:
			return mkInt(w, s, a.C+b.C)
		case token.SUB:
			return mkInt(w, s, a.C-b.C)
		case token.MUL:
			return mkInt(w, s, a.C*b.C)
		case token.QUO:
			if b.C == 0 {
				panic(goPanic{"integer divide by zero"})
			}
			if s {
				if b.sval() == -1 {
					return mkInt(w, s, -a.C)
				}
				return mkInt(w, s, uint64(a.sval()/b.sval()))
			}
			return mkInt(w, s, a.C/b.C)
		case token.REM:
			if b.C == 0 {
				panic(goPanic{"integer divide by zero"})
			}
			if s {
				if b.sval() == -1 {
					return mkInt(w, s, 0)
				}
				return mkInt(w, s, uint64(a.sval()%b.sval()))
			}
			return mkInt(w, s, a.C%b.C)
		case token.AND:
			return mkInt(w, s, a.C&b.C)
		case token.OR:
			return mkInt(w, s, a.C|b.C)
		case token.XOR:
			return mkInt(w, s, a.C^b.C)
		case token.AND_NOT:
			return mkInt(w, s, a.C&^b.C)
		case token.SHL:
			sh := b.C
			if b.Signed && b.sval() < 0 {
				panic(goPanic{"negative shift amount"})
			}
			if sh >= uint64(w) {
				return mkInt(w, s, 0)
			}
			return mkInt(w, s, a.C<<sh)
		case token.SHR:
			sh := b.C
			if b.Signed && b.sval() < 0 {
				panic(goPanic{"negative shift amount"})
			}
			if s {
				if sh >= uint64(w) {
					sh = uint64(w) - 1
				}
				return mkInt(w, s, uint64(a.sval()>>sh))
			}
			if sh >= uint64(w) {
				return mkInt(w, s, 0)
			}
			return mkInt(w, s, a.C>>sh)
		case token.EQL:
			return Bool{C: a.C == b.C}
		case token.NEQ:
			return Bool{C: a.C != b.C}
		case token.LSS:
			if s {
				return Bool{C: a.sval() < b.sval()}
			}
			return Bool{C: a.C < b.C}
		case token.LEQ:
			if s {
				return Bool{C: a.sval() <= b.sval()}
			}
			return Bool{C: a.C <= b.C}
		case token.GTR:
			if s {
				return Bool{C: a.sval() > b.sval()}
			}
			return Bool{C: a.C > b.C}
		case token.GEQ:
			if s {
				return Bool{C: a.sval() >= b.sval()}
			}
			return Bool{C: a.C >= b.C}
		}
	case Bool:
		b := y.(Bool)
		if a.T != nil || b.T != nil {
			switch op {
			case token.EQL:
				return mkBoolT(tEq(a.term(), b.term()))
			case token.NEQ:
				return mkBoolT(tNot(tEq(a.term(), b.term())))
			case token.AND, token.LAND:
				return mkBoolT(tAnd(a.term(), b.term()))
			case token.OR, token.LOR:
				return mkBoolT(tOr(a.term(), b.term()))
			}
		}
		switch op {
		case token.EQL:
			return Bool{C: a.C == b.C}
		case token.NEQ:
			return Bool{C: a.C != b.C}
		case token.AND, token.LAND:
			return Bool{C: a.C && b.C}
		case token.OR, token.LOR:
			return Bool{C: a.C || b.C}
		}
	case Str:
		b := y.(Str)
		if a.B != nil || b.B != nil {
			switch op {
			case token.ADD:
				return normStr(append(append([]Value(nil), a.bytes()...), b.bytes()...))
			case token.EQL:
				return mkBoolT(st.eqTerm(a, b))
			case token.NEQ:
				return mkBoolT(tNot(st.eqTerm(a, b)))
			}
			return mkBoolT(strLess(op, a, b))
		}
		switch op {
		case token.ADD:
			return Str{S: a.S + b.S}
		case token.EQL:
			return Bool{C: a.S == b.S}
		case token.NEQ:
			return Bool{C: a.S != b.S}
		case token.LSS:
			return Bool{C: a.S < b.S}
		case token.LEQ:
			return Bool{C: a.S <= b.S}
		case token.GTR:
			return Bool{C: a.S > b.S}
		case token.GEQ:
			return Bool{C: a.S >= b.S}
		}
	case Float:
		b := y.(Float)
		switch op {
		case token.ADD:
			return Float{a.F + b.F}
		case token.SUB:
			return Float{a.F - b.F}
		case token.MUL:
			return Float{a.F * b.F}
		case token.QUO:
			return Float{a.F / b.F}
		case token.LSS:
			return Bool{C: a.F < b.F}
		case token.LEQ:
			return Bool{C: a.F <= b.F}
		case token.GTR:
			return Bool{C: a.F > b.F}
		case token.GEQ:
			return Bool{C: a.F >= b.F}
		case token.EQL:
			return Bool{C: a.F == b.F}
		case token.NEQ:
			return Bool{C: a.F != b.F}
		}
	}
	switch op {
	case token.EQL:
		return mkBoolT(st.eqTerm(x, y))
	case token.NEQ:
		return mkBoolT(tNot(st.eqTerm(x, y)))
	}
	panic(fmt.Sprintf("binop %v on %T,%T", op, x, y))
}

// strLess builds the lexicographic comparison term for strings with symbolic bytes.
func strLess(op token.Token, a, b Str) *Term {
	la, lb := a.length(), b.length()
	n := la
	if lb < n {
		n = lb
	}
	// lt: exists first differing position with a<b, or a is a proper prefix
	lt := boolConst(la < lb)
	eqAll := tTrue
	// build from the end
	for i := n - 1; i >= 0; i-- {
		x, y := a.at(i).term(), b.at(i).term()
		lt = tIte(tEq(x, y), lt, tCmp("bvult", x, y))
	}
	for i := 0; i < n; i++ {
		eqAll = tAnd(eqAll, tEq(a.at(i).term(), b.at(i).term()))
	}
	eq := tAnd(eqAll, boolConst(la == lb))
	switch op {
	case token.LSS:
		return lt
	case token.LEQ:
		return tOr(lt, eq)
	case token.GTR:
		return tNot(tOr(lt, eq))
	case token.GEQ:
		return tNot(lt)
	}
	panic("strLess op")
}

func (st *State) symBinop(op token.Token, a, b Int) Value {
	w, s := a.W, a.Signed
	x, y := a.term(), b.term()
	isShift := op == token.SHL || op == token.SHR
	if isShift {
		if b.Signed && b.T != nil {
			if st.decide(tCmp("bvslt", b.T, bvConst(b.W, 0))) {
				panic(goPanic{"negative shift amount"})
			}
		} else if b.Signed && b.sval() < 0 {
			panic(goPanic{"negative shift amount"})
		}
		var big *Term = tFalse
		if b.W > w {
			big = tCmp("bvuge", y, bvConst(b.W, uint64(w)))
			y = tExtract(y, w-1, 0)
		} else if b.W < w {
			y = tZext(y, w)
		}
		var r *Term
		switch {
		case op == token.SHL:
			r = tIte(big, bvConst(w, 0), tBV("bvshl", x, y))
		case s:
			r = tIte(big, tBV("bvashr", x, bvConst(w, uint64(w)-1)), tBV("bvashr", x, y))
		default:
			r = tIte(big, bvConst(w, 0), tBV("bvlshr", x, y))
		}
		return mkIntT(w, s, r)
	}
	if b.W != w {
		panic(fmt.Sprintf("symBinop %v: width mismatch %d vs %d", op, w, b.W))
	}
	bv := func(o string) Value { return mkIntT(w, s, tBV(o, x, y)) }
	bl := func(o string) Value { return mkBoolT(tCmp(o, x, y)) }
	pick := func(signed, unsigned string) string {
		if s {
			return signed
		}
		return unsigned
	}
	switch op {
	case token.ADD:
		return bv("bvadd")
	case token.SUB:
		return bv("bvsub")
	case token.MUL:
		return bv("bvmul")
	case token.AND:
		return bv("bvand")
	case token.OR:
		return bv("bvor")
	case token.XOR:
		return bv("bvxor")
	case token.AND_NOT:
		return mkIntT(w, s, tBV("bvand", x, tBVNot(y)))
	case token.QUO, token.REM:
		if b.T != nil {
			if st.decide(tEq(y, bvConst(w, 0))) {
				panic(goPanic{"integer divide by zero"})
			}
		} else if b.C == 0 {
			panic(goPanic{"integer divide by zero"})
		}
		if op == token.QUO {
			return bv(pick("bvsdiv", "bvudiv"))
		}
		return bv(pick("bvsrem", "bvurem"))
	case token.EQL:
		return mkBoolT(tEq(x, y))
	case token.NEQ:
		return mkBoolT(tNot(tEq(x, y)))
	case token.LSS:
		return bl(pick("bvslt", "bvult"))
	case token.LEQ:
		return bl(pick("bvsle", "bvule"))
	case token.GTR:
		return bl(pick("bvsgt", "bvugt"))
	case token.GEQ:
		return bl(pick("bvsge", "bvuge"))
	}
	panic("symBinop " + op.String())
}

// eqTerm builds the term for x == y (Go comparison semantics).
func (st *State) eqTerm(x, y Value) *Term {
	switch a := x.(type) {
	case Int:
		b := y.(Int)
		if a.T == nil && b.T == nil {
			return boolConst(a.C == b.C)
		}
		return tEq(a.term(), b.term())
	case Bool:
		b := y.(Bool)
		return tEq(a.term(), b.term())
	case Str:
		b := y.(Str)
		if a.B == nil && b.B == nil {
			return boolConst(a.S == b.S)
		}
		if a.length() != b.length() {
			return tFalse
		}
		r := tTrue
		for i := 0; i < a.length(); i++ {
			r = tAnd(r, tEq(a.at(i).term(), b.at(i).term()))
			if r.Op == "false" {
				return r
			}
		}
		return r
	case Float:
		return boolConst(a.F == y.(Float).F)
	case Complex:
		return boolConst(a.C == y.(Complex).C)
	case Ptr:
		b := y.(Ptr)
		if a.Obj != b.Obj || len(a.Path) != len(b.Path) {
			return tFalse
		}
		for i := range a.Path {
			if a.Path[i] != b.Path[i] {
				return tFalse
			}
		}
		return tTrue
	case Struct:
		b := y.(Struct)
		r := tTrue
		for i := range a {
			r = tAnd(r, st.eqTerm(a[i], b[i]))
			if r.Op == "false" {
				return r
			}
		}
		return r
	case Array:
		b := y.(Array)
		r := tTrue
		for i := range a {
			r = tAnd(r, st.eqTerm(a[i], b[i]))
			if r.Op == "false" {
				return r
			}
		}
		return r
	case Iface:
		b := y.(Iface)
		if a.T == nil || b.T == nil {
			return boolConst(a.T == nil && b.T == nil)
		}
		if !types.Identical(a.T, b.T) {
			return tFalse
		}
		if !types.Comparable(a.T) {
			panic(goPanic{"comparing uncomparable type " + a.T.String()})
		}
		return st.eqTerm(a.V, b.V)
	case Slice:
		b := y.(Slice)
		if a.Obj == 0 || b.Obj == 0 {
			return boolConst(a.Obj == 0 && b.Obj == 0)
		}
		panic("slice comparison")
	case Map:
		return boolConst(a.Obj == y.(Map).Obj)
	case Chan:
		return boolConst(a.Obj == y.(Chan).Obj)
	case Func:
		b := y.(Func)
		return boolConst(a.Fn == nil && a.Builtin == nil && b.Fn == nil && b.Builtin == nil)
	case Native:
		return boolConst(a.V == y.(Native).V)
	case nil:
		return boolConst(y == nil)
	}
	panic(fmt.Sprintf("equal on %T,%T", x, y))
}

func (st *State) convert(x Value, from, to types.Type) Value {
	if w, s, ok := intInfo(to); ok {
		switch a := x.(type) {
		case Int:
			if a.T != nil {
				switch {
				case w == a.W:
					return Int{W: w, Signed: s, T: a.T}
				case w < a.W:
					return mkIntT(w, s, tExtract(a.T, w-1, 0))
				case a.Signed:
					return mkIntT(w, s, tSext(a.T, w))
				}
				return mkIntT(w, s, tZext(a.T, w))
			}
			if a.Signed {
				return mkInt(w, s, uint64(a.sval()))
			}
			return mkInt(w, s, a.C)
		case Float:
			if s {
				return mkInt(w, s, uint64(int64(a.F)))
			}
			return mkInt(w, s, uint64(a.F))
		case Ptr: // unsafe.Pointer -> uintptr
			return mkInt(w, s, uint64(a.Obj)<<20)
		}
	}
	switch tu := to.Underlying().(type) {
	case *types.Basic:
		if tu.Info()&types.IsFloat != 0 {
			switch a := x.(type) {
			case Int:
				if a.T != nil {
					// floats only feed metrics in the code under test; the value is not modelled
					if st.w != nil {
						st.w.approx["symbolic integer converted to float yields 0.0 (floats feed metrics only)"] = true
					}
					return Float{0}
				}
				if a.Signed {
					return Float{float64(a.sval())}
				}
				return Float{float64(a.C)}
			case Float:
				if tu.Kind() == types.Float32 {
					return Float{float64(float32(a.F))}
				}
				return a
			}
		}
		if tu.Info()&types.IsString != 0 {
			switch a := x.(type) {
			case Str:
				return a
			case Int:
				if a.T != nil {
					unsupported("symbolic rune to string")
				}
				return Str{S: string(rune(a.sval()))}
			case Slice: // []byte or []rune
				et := from.Underlying().(*types.Slice).Elem().Underlying().(*types.Basic)
				if et.Kind() == types.Uint8 {
					return normStr(st.sliceVals(a))
				}
				var sb strings.Builder
				for i := 0; i < a.Len; i++ {
					r := st.sliceGet(a, i).(Int)
					if r.T != nil {
						unsupported("symbolic rune slice to string")
					}
					sb.WriteRune(rune(r.sval()))
				}
				return Str{S: sb.String()}
			}
		}
		if tu.Kind() == types.UnsafePointer {
			return x
		}
	case *types.Slice:
		if s, ok := x.(Str); ok {
			et := tu.Elem().Underlying().(*types.Basic)
			if et.Kind() == types.Uint8 {
				return st.newSliceOf(s.bytes(), tu.Elem())
			}
			if s.B != nil {
				unsupported("symbolic string to rune slice")
			}
			rs := []rune(s.S)
			vals := make([]Value, len(rs))
			for i, r := range rs {
				vals[i] = mkInt(32, true, uint64(int64(r)))
			}
			return st.newSliceOf(vals, tu.Elem())
		}
		return x
	case *types.Pointer:
		return x
	case *types.Array:
		// slice to array conversion
		if s, ok := x.(Slice); ok {
			n := int(tu.Len())
			if s.Len < n {
				panic(goPanic{"cannot convert slice to array: length too short"})
			}
			return Array(st.sliceVals(Slice{Obj: s.Obj, Path: s.Path, Off: s.Off, Len: n, Cap: n}))
		}
	}
	if types.Identical(from.Underlying(), to.Underlying()) {
		return x
	}
	panic(fmt.Sprintf("convert %T from %v to %v", x, from, to))
}

// ---- maps ----

func hasSym(v Value) bool {
	switch a := v.(type) {
	case Int:
		return a.T != nil
	case Bool:
		return a.T != nil
	case Str:
		return a.B != nil
	case Array:
		for _, e := range a {
			if hasSym(e) {
				return true
			}
		}
	case Struct:
		for _, e := range a {
			if hasSym(e) {
				return true
			}
		}
	case Iface:
		return a.T != nil && hasSym(a.V)
	}
	return false
}

func (st *State) key(v Value) string {
	var sb strings.Builder
	st.keyTo(&sb, v)
	return sb.String()
}

func (st *State) keyTo(sb *strings.Builder, v Value) {
	switch a := v.(type) {
	case Int:
		fmt.Fprintf(sb, "i%d:%d", a.W, a.C)
	case Bool:
		if a.C {
			sb.WriteString("T")
		} else {
			sb.WriteString("F")
		}
	case Str:
		sb.WriteString("s")
		sb.WriteString(a.S)
		sb.WriteByte(0)
	case Float:
		fmt.Fprintf(sb, "f%v", a.F)
	case Ptr:
		fmt.Fprint(sb, "p", a.Obj, a.Path)
	case Array:
		sb.WriteString("[")
		for _, e := range a {
			// compact form for byte arrays
			if b, ok := e.(Int); ok && b.W == 8 {
				fmt.Fprintf(sb, "%02x", b.C)
				continue
			}
			st.keyTo(sb, e)
			sb.WriteString(",")
		}
		sb.WriteString("]")
	case Struct:
		sb.WriteString("{")
		for _, e := range a {
			st.keyTo(sb, e)
			sb.WriteString(",")
		}
		sb.WriteString("}")
	case Iface:
		if a.T == nil {
			sb.WriteString("nil")
			return
		}
		sb.WriteString("I" + a.T.String() + ":")
		st.keyTo(sb, a.V)
	case Chan:
		fmt.Fprint(sb, "c", a.Obj)
	case Native:
		fmt.Fprintf(sb, "n%v", a.V)
	default:
		panic(fmt.Sprintf("map key %T", v))
	}
}

// mapFind returns the position of key k in the map object, or -1. With symbolic keys the
// comparison forks (decide), so it must run before side effects of the instruction.
func (st *State) mapFind(o *Object, k Value) int {
	if !o.M.SymKeys && !hasSym(k) {
		if i, ok := o.M.Index[st.key(k)]; ok {
			return i
		}
		return -1
	}
	for i, ek := range o.M.Keys {
		if ek == nil {
			continue
		}
		if st.decide(st.eqTerm(k, ek)) {
			return i
		}
	}
	return -1
}

func (st *State) mapSet(m Map, k, v Value) {
	pos := st.mapFind(st.robj(m.Obj), k)
	o := st.wobj(m.Obj)
	if pos >= 0 {
		o.M.Vals[pos] = v
		return
	}
	if hasSym(k) {
		o.M.SymKeys = true
	} else {
		o.M.Index[st.key(k)] = len(o.M.Keys)
	}
	o.M.Keys = append(o.M.Keys, k)
	o.M.Vals = append(o.M.Vals, v)
	o.M.Live++
}

func (st *State) mapDelete(m Map, k Value) {
	if m.Obj == 0 {
		return
	}
	pos := st.mapFind(st.robj(m.Obj), k)
	if pos < 0 {
		return
	}
	o := st.wobj(m.Obj)
	if !hasSym(o.M.Keys[pos]) {
		delete(o.M.Index, st.key(o.M.Keys[pos]))
	}
	o.M.Keys[pos] = nil // tombstone keeps iteration positions stable
	o.M.Vals[pos] = nil
	o.M.Live--
}

func (st *State) mapLen(m Map) int {
	if m.Obj == 0 {
		return 0
	}
	return st.robj(m.Obj).M.Live
}

func (st *State) mapGet(m Map, k Value) (Value, bool) {
	if m.Obj == 0 {
		return nil, false
	}
	o := st.robj(m.Obj)
	pos := st.mapFind(o, k)
	if pos < 0 {
		return nil, false
	}
	return o.M.Vals[pos], true
}

func (st *State) lookup(fr *Frame, i *ssa.Lookup) Value {
	x := st.get(fr, i.X)
	switch x := x.(type) {
	case Str:
		return st.symIndexRead(x.bytes(), st.get(fr, i.Index).(Int))
	case Map:
		vt := i.X.Type().Underlying().(*types.Map).Elem()
		v, found := st.mapGet(x, st.get(fr, i.Index))
		if !found {
			v = zero(vt)
		}
		if i.CommaOk {
			return Tuple{v, Bool{C: found}}
		}
		return v
	}
	panic("lookup")
}

func (st *State) mapRange(m Map) MapIter {
	it := MapIter{Obj: m.Obj}
	if m.Obj != 0 {
		o := st.robj(m.Obj)
		if o.M.NondetOrder && o.M.Live > 1 {
			// iteration starts at a symbolic live position and wraps around
			v := st.nondetVar("maporder", 64, "int")
			n := len(o.M.Keys)
			st.assumeNoFork(tCmp("bvult", v, bvConst(64, uint64(n))))
			start := st.concrete(Int{W: 64, Signed: true, T: v})
			if o.M.Keys[start] == nil {
				panic(forkAbort{}) // dead position: an equivalent order is covered by the next live one
			}
			it.Rot, it.Start = true, start
		}
	}
	return it
}

func (st *State) next(fr *Frame, i *ssa.Next) Value {
	it := st.get(fr, i.Iter).(MapIter)
	if it.IsStr {
		n := it.S.length()
		if it.Pos >= n {
			return Tuple{Bool{C: false}, mkI64(0), mkInt(32, true, 0)}
		}
		if it.S.B != nil {
			b := it.S.at(it.Pos)
			if b.T != nil {
				// symbolic bytes: only ASCII is modelled
				if !st.decide(tCmp("bvult", b.T, bvConst(8, 0x80))) {
					unsupported("range over symbolic string with non-ASCII byte")
				}
				res := Tuple{Bool{C: true}, mkI64(int64(it.Pos)), mkIntT(32, true, tZext(b.T, 32))}
				it.Pos++
				st.set(fr, i.Iter, it)
				return res
			}
			// concrete byte inside a partly symbolic string: decode only ASCII
			if b.C >= 0x80 {
				unsupported("range over partly symbolic string with non-ASCII byte")
			}
			res := Tuple{Bool{C: true}, mkI64(int64(it.Pos)), mkInt(32, true, b.C)}
			it.Pos++
			st.set(fr, i.Iter, it)
			return res
		}
		r, sz := utf8.DecodeRuneInString(it.S.S[it.Pos:])
		res := Tuple{Bool{C: true}, mkI64(int64(it.Pos)), mkInt(32, true, uint64(int64(r)))}
		it.Pos += sz
		st.set(fr, i.Iter, it)
		return res
	}
	mt := i.Iter.(*ssa.Range).X.Type().Underlying().(*types.Map)
	if it.Obj != 0 {
		o := st.robj(it.Obj)
		n := len(o.M.Keys)
		if it.Rot {
			for it.Pos < n {
				p := (it.Start + it.Pos) % n
				it.Pos++
				if o.M.Keys[p] != nil {
					st.set(fr, i.Iter, it)
					return Tuple{Bool{C: true}, o.M.Keys[p], o.M.Vals[p]}
				}
			}
			st.set(fr, i.Iter, it)
			return Tuple{Bool{C: false}, zero(mt.Key()), zero(mt.Elem())}
		}
		for it.Pos < len(o.M.Keys) {
			k := o.M.Keys[it.Pos]
			v := o.M.Vals[it.Pos]
			it.Pos++
			if k != nil {
				st.set(fr, i.Iter, it)
				return Tuple{Bool{C: true}, k, v}
			}
		}
	}
	st.set(fr, i.Iter, it)
	return Tuple{Bool{C: false}, zero(mt.Key()), zero(mt.Elem())}
}

// ---- channels ----

func (st *State) chanRecv(c Chan, et types.Type) (Value, bool) {
	if c.Obj == 0 {
		panic(blockSignal{"receive from nil channel"})
	}
	o := st.robj(c.Obj)
	if len(o.Ch.Buf) > 0 {
		o = st.wobj(c.Obj)
		v := o.Ch.Buf[0]
		o.Ch.Buf = append([]Value(nil), o.Ch.Buf[1:]...)
		st.wake++
		return v, true
	}
	if o.Ch.Closed {
		return zero(et), false
	}
	panic(blockSignal{fmt.Sprintf("receive on empty channel o%d", c.Obj)})
}

func (st *State) chanSendReady(c Chan) bool {
	if c.Obj == 0 {
		return false
	}
	o := st.robj(c.Obj)
	if o.Ch.Closed {
		return true // will panic
	}
	cp := o.Ch.Cap
	if cp == 0 {
		cp = 1 // unbuffered channels are approximated by a one-slot buffer (stated in the evidence)
	}
	return len(o.Ch.Buf) < cp
}

func (st *State) chanSend(c Chan, v Value) {
	if c.Obj == 0 {
		panic(blockSignal{"send on nil channel"})
	}
	o := st.robj(c.Obj)
	if o.Ch.Closed {
		panic(goPanic{"send on closed channel"})
	}
	if !st.chanSendReady(c) {
		panic(blockSignal{fmt.Sprintf("send on full channel o%d", c.Obj)})
	}
	if o.Ch.Cap == 0 && st.w != nil {
		st.w.approx["unbuffered channel send modelled as one-slot buffer"] = true
	}
	o = st.wobj(c.Obj)
	o.Ch.Buf = append(o.Ch.Buf, v)
	st.wake++
}

func (st *State) chanClose(c Chan) {
	if c.Obj == 0 {
		panic(goPanic{"close of nil channel"})
	}
	o := st.wobj(c.Obj)
	if o.Ch.Closed {
		panic(goPanic{"close of closed channel"})
	}
	o.Ch.Closed = true
	st.wake++
}

func (st *State) selectOp(fr *Frame, i *ssa.Select) {
	var ready []int
	for k, s := range i.States {
		c := st.get(fr, s.Chan).(Chan)
		if s.Dir == types.RecvOnly {
			if c.Obj != 0 {
				o := st.robj(c.Obj)
				if len(o.Ch.Buf) > 0 || o.Ch.Closed {
					ready = append(ready, k)
				}
			}
		} else if st.chanSendReady(c) {
			ready = append(ready, k)
		}
	}
	chosen := -1
	switch {
	case len(ready) == 0 && !i.Blocking:
		chosen = -1
	case len(ready) == 0:
		panic(blockSignal{"select with no ready case"})
	case len(ready) == 1:
		chosen = ready[0]
	default:
		chosen = ready[st.choose(len(ready))]
	}
	res := Tuple{mkI64(int64(chosen)), Bool{}}
	for k, s := range i.States {
		if s.Dir != types.RecvOnly {
			continue
		}
		et := s.Chan.Type().Underlying().(*types.Chan).Elem()
		if k == chosen {
			c := st.get(fr, s.Chan).(Chan)
			v, ok := st.chanRecv(c, et)
			res[1] = Bool{C: ok}
			res = append(res, v)
		} else {
			res = append(res, zero(et))
		}
	}
	if chosen >= 0 && i.States[chosen].Dir != types.RecvOnly {
		st.chanSend(st.get(fr, i.States[chosen].Chan).(Chan), st.get(fr, i.States[chosen].Send))
	}
	st.set(fr, i, res)
	fr.pc++
}

// choose forks n ways without consulting the solver (scheduler / select nondeterminism).
func (st *State) choose(n int) int {
	for k := 0; k < n-1; k++ {
		if st.choose2() {
			return k
		}
	}
	return n - 1
}

func (st *State) choose2() bool {
	if st.fpos < len(st.forced) {
		v := st.forced[st.fpos]
		st.fpos++
		st.decs = append(st.decs, v)
		return v
	}
	if st.syncDepth > 0 {
		unsupported("nondeterministic choice inside a synchronous engine call")
	}
	other := st.fork()
	other.forced = append(append([]bool(nil), st.decs...), false)
	other.decs = nil
	st.w.push(other)
	st.decs = append(st.decs, true)
	return true
}

// ---- builtins ----

func (st *State) builtin(fr *Frame, name string, args []Value) Value {
	switch name {
	case "len":
		switch a := args[0].(type) {
		case Str:
			return mkI64(int64(a.length()))
		case Slice:
			return mkI64(int64(a.Len))
		case Array:
			return mkI64(int64(len(a)))
		case Map:
			return mkI64(int64(st.mapLen(a)))
		case Ptr: // *array
			if a.Obj == 0 {
				return mkI64(0)
			}
			return mkI64(int64(len(getPathElems(st.load(a)))))
		case Chan:
			if a.Obj == 0 {
				return mkI64(0)
			}
			return mkI64(int64(len(st.robj(a.Obj).Ch.Buf)))
		}
	case "cap":
		switch a := args[0].(type) {
		case Slice:
			return mkI64(int64(a.Cap))
		case Array:
			return mkI64(int64(len(a)))
		case Chan:
			if a.Obj == 0 {
				return mkI64(0)
			}
			return mkI64(int64(st.robj(a.Obj).Ch.Cap))
		case Ptr:
			return mkI64(int64(len(getPathElems(st.load(a)))))
		}
	case "append":
		s := args[0].(Slice)
		var add []Value
		switch t := args[1].(type) {
		case Slice:
			add = st.sliceVals(t)
		case Str:
			add = t.bytes()
		}
		return st.appendVals(s, add)
	case "copy":
		dst := args[0].(Slice)
		n := dst.Len
		switch src := args[1].(type) {
		case Slice:
			if src.Len < n {
				n = src.Len
			}
			tmp := st.sliceVals(Slice{Obj: src.Obj, Path: src.Path, Off: src.Off, Len: n, Cap: n})
			for i := 0; i < n; i++ {
				st.sliceSet(dst, i, tmp[i])
			}
		case Str:
			if src.length() < n {
				n = src.length()
			}
			for i := 0; i < n; i++ {
				st.sliceSet(dst, i, src.at(i))
			}
		}
		return mkI64(int64(n))
	case "delete":
		st.mapDelete(args[0].(Map), args[1])
		return nil
	case "clear":
		switch a := args[0].(type) {
		case Map:
			if a.Obj != 0 {
				o := st.wobj(a.Obj)
				o.M = &MapData{Index: map[string]int{}, NondetOrder: o.M.NondetOrder}
			}
		case Slice:
			for i := 0; i < a.Len; i++ {
				st.sliceSet(a, i, zeroLike(st.sliceGet(a, i)))
			}
		}
		return nil
	case "recover":
		g := st.g()
		if len(g.frames) >= 2 {
			caller := g.frames[len(g.frames)-2]
			if fr.isDeferredCall && caller.panicking && g.panicVal != nil {
				v := *g.panicVal
				g.panicVal = nil
				caller.recovered = true
				return v
			}
		}
		return Iface{}
	case "min", "max":
		best := args[0]
		for _, a := range args[1:] {
			switch b := best.(type) {
			case Int:
				ai := a.(Int)
				if b.T != nil || ai.T != nil {
					op := "bvult"
					if b.Signed {
						op = "bvslt"
					}
					lt := tCmp(op, ai.term(), b.term()) // a < best
					if name == "max" {
						lt = tCmp(op, b.term(), ai.term())
					}
					best = mkIntT(b.W, b.Signed, tIte(lt, ai.term(), b.term()))
					continue
				}
			}
			lt := st.binop(token.LSS, a, best, nil).(Bool).C
			gt := st.binop(token.LSS, best, a, nil).(Bool).C
			if (name == "min" && lt) || (name == "max" && gt) {
				best = a
			}
		}
		return best
	case "print", "println":
		return nil
	case "close":
		st.chanClose(args[0].(Chan))
		return nil
	case "ssa:wrapnilchk":
		if p, ok := args[0].(Ptr); ok && p.Obj == 0 {
			panic(goPanic{"value method called using nil pointer"})
		}
		return args[0]
	case "SliceData":
		s := args[0].(Slice)
		if s.Obj == 0 {
			return Ptr{}
		}
		return Ptr{Obj: s.Obj, Path: extend(s.Path, s.Off)}
	case "StringData":
		s := args[0].(Str)
		sl := st.newSliceOf(s.bytes(), types.Typ[types.Uint8])
		return Ptr{Obj: sl.Obj, Path: []int{0}}
	case "String":
		p := args[0].(Ptr)
		n := st.concrete(args[1].(Int))
		if n == 0 {
			return Str{}
		}
		off := p.Path[len(p.Path)-1]
		s := Slice{Obj: p.Obj, Path: p.Path[:len(p.Path)-1], Off: off, Len: n, Cap: n}
		return normStr(st.sliceVals(s))
	case "Slice":
		p := args[0].(Ptr)
		n := st.concrete(args[1].(Int))
		if p.Obj == 0 {
			return Slice{}
		}
		off := p.Path[len(p.Path)-1]
		return Slice{Obj: p.Obj, Path: p.Path[:len(p.Path)-1], Off: off, Len: n, Cap: n}
	case "real":
		return Float{real(args[0].(Complex).C)}
	case "imag":
		return Float{imag(args[0].(Complex).C)}
	}
	panic(fmt.Sprintf("builtin %s(%T...)", name, args[0]))
}

func getPathElems(v Value) []Value {
	switch a := v.(type) {
	case Array:
		return a
	case Struct:
		return a
	}
	return nil
}

func (st *State) appendVals(s Slice, add []Value) Slice {
	if len(add) == 0 {
		return s
	}
	n := s.Len + len(add)
	if s.Obj != 0 && n <= s.Cap {
		for i, v := range add {
			st.sliceSet(Slice{Obj: s.Obj, Path: s.Path, Off: s.Off, Len: n, Cap: s.Cap}, s.Len+i, v)
		}
		s.Len = n
		return s
	}
	// grow: new backing array (capacity policy: double, like the runtime for small slices)
	c := s.Cap * 2
	if c < n {
		c = n
	}
	if c > 256 && c > n+n/4 {
		c = n + n/4
	}
	elems := make([]Value, c)
	for i := 0; i < s.Len; i++ {
		elems[i] = st.sliceGet(s, i)
	}
	copy(elems[s.Len:], add)
	z := zeroLike(add[0])
	for i := n; i < c; i++ {
		elems[i] = z
	}
	id := st.newObj(&Object{Agg: true, Elems: elems})
	return Slice{Obj: id, Len: n, Cap: c}
}

func zeroLike(v Value) Value {
	switch a := v.(type) {
	case Int:
		return mkInt(a.W, a.Signed, 0)
	case Bool:
		return Bool{}
	case Str:
		return Str{}
	case Float:
		return Float{}
	case Ptr:
		return Ptr{}
	case Slice:
		return Slice{}
	case Iface:
		return Iface{}
	case Array:
		z := make(Array, len(a))
		for i := range a {
			z[i] = zeroLike(a[i])
		}
		return z
	case Struct:
		z := make(Struct, len(a))
		for i := range a {
			z[i] = zeroLike(a[i])
		}
		return z
	case Func:
		return Func{}
	case Map:
		return Map{}
	case Chan:
		return Chan{}
	}
	return nil
}

var _ = math.MaxInt64
