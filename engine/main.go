package main

import (
	"encoding/json"
	"flag"
	"fmt"
	"os"
	"sort"
	"strings"
	"sync"
	"time"

	"golang.org/x/tools/go/ssa"
)

type CaseSpec struct {
	Name        string            `json:"name"`
	Func        string            `json:"func"`
	Args        []int64           `json:"args"`
	Unwind      int               `json:"unwind,omitempty"`
	ExpectReach []string          `json:"expect_reach,omitempty"`
	MaxPaths    int64             `json:"max_paths,omitempty"`
	WallS       float64           `json:"wall_s,omitempty"` // wall-clock budget of the case; exceeded = inconclusive, violations found so far are kept
	Replay      map[string]uint64 `json:"replay,omitempty"` // concrete values for nondets (replay mode)
	Twin        bool              `json:"twin,omitempty"`   // vacuity twin: expect a violation of the final assert(false)
	// UnwindIsViolation: the unwinding bound is a proven bound on every loop of the code under test,
	// so exceeding it is a termination violation instead of an inconclusive result.
	UnwindIsViolation bool `json:"unwind_is_violation,omitempty"`
}

type JobSpec struct {
	Dir       string            `json:"dir"`
	Pkg       string            `json:"pkg"`
	Tags      string            `json:"tags"`
	Overlay   map[string]string `json:"overlay"`
	Workers   int               `json:"workers"`
	Solver    string            `json:"solver"`
	TimeoutMs int               `json:"timeout_ms"`
	MaxSteps  int64             `json:"max_steps"`
	Unwind    int               `json:"unwind"`
	Cases     []CaseSpec        `json:"cases"`
	Debug     bool              `json:"debug"`
}

type CaseResult struct {
	Name          string           `json:"name"`
	Func          string           `json:"func"`
	Args          []int64          `json:"args"`
	Paths         int64            `json:"paths"`
	PathsByStatus map[string]int64 `json:"paths_by_status"`
	Branches      int64            `json:"symbolic_branches"`
	Forks         int64            `json:"forks"`
	Asserts       int64            `json:"assertions_checked"`
	Nontrivial    int64            `json:"nontrivial_paths"`
	Queries       int64            `json:"solver_queries"`
	SolverS       float64          `json:"solver_time_s"`
	MaxQueryS     float64          `json:"max_query_s"`
	WallS         float64          `json:"wall_s"`
	Steps         int64            `json:"ssa_instructions"`
	Reach         map[string]int64 `json:"reach"`
	MissingReach  []string         `json:"missing_reach,omitempty"`
	Violations    []Violation      `json:"violations,omitempty"`
	Inconclusive  []string         `json:"inconclusive,omitempty"`
	Samples       []PathSample     `json:"samples,omitempty"`
	Verdict       string           `json:"verdict"` // pass | violation | inconclusive
	Concretized   int64            `json:"concretizations"`
	ReplayOutcome string           `json:"replay_outcome,omitempty"`
	ReplayReach   []string         `json:"replay_reach,omitempty"`
}

type PathSample struct {
	Status  string      `json:"status"`
	Nondets []NondetVal `json:"nondets,omitempty"`
	Reach   []string    `json:"reach,omitempty"`
	Trace   []string    `json:"trace,omitempty"`
	Result  string      `json:"result,omitempty"`
}

type JobResult struct {
	LoadS      float64      `json:"load_s"`
	InitS      float64      `json:"init_s"`
	Cases      []CaseResult `json:"cases"`
	RepoFns    []string     `json:"functions_repo"`
	DepFns     []string     `json:"functions_dep"`
	Stubs      []string     `json:"stubs"`
	CutPkgs    []string     `json:"cut_packages"`
	Approx     []string     `json:"approximations,omitempty"`
	Intrinsics []string     `json:"intrinsics_used"`
	Error      string       `json:"error,omitempty"`
}

var statusNames = map[int]string{stOK: "ok", stInfeasible: "infeasible", stPanic: "panic", stDeadlock: "deadlock",
	stUnwind: "unwind", stStepLimit: "steplimit", stEngineErr: "engine_error", stInconclusive: "solver_inconclusive", stAssumeFalse: "assume_false"}

func main() {
	jobPath := flag.String("job", "", "job specification (JSON)")
	outPath := flag.String("out", "", "result file (JSON)")
	flag.Parse()
	b, err := os.ReadFile(*jobPath)
	if err != nil {
		fatal(err)
	}
	var job JobSpec
	if err := json.Unmarshal(b, &job); err != nil {
		fatal(err)
	}
	res := runJob(&job)
	ob, _ := json.MarshalIndent(res, "", " ")
	if *outPath == "" {
		os.Stdout.Write(ob)
	} else if err := os.WriteFile(*outPath, ob, 0o644); err != nil {
		fatal(err)
	}
}

func fatal(err error) {
	fmt.Fprintln(os.Stderr, "symgo:", err)
	os.Exit(3)
}

func runJob(job *JobSpec) *JobResult {
	res := &JobResult{}
	cfg := Config{MaxSteps: job.MaxSteps, MaxDepth: 400, Unwind: job.Unwind, Debug: job.Debug, Solver: job.Solver, TimeoutMs: job.TimeoutMs}
	if cfg.MaxSteps == 0 {
		cfg.MaxSteps = 200_000_000
	}
	if cfg.Unwind == 0 {
		cfg.Unwind = 1_000_000
	}
	if cfg.TimeoutMs == 0 {
		cfg.TimeoutMs = 60000
	}
	if job.Workers == 0 {
		job.Workers = 8
	}
	t0 := time.Now()
	in, err := load(LoadSpec{Dir: job.Dir, Pkg: job.Pkg, Tags: job.Tags, Overlay: job.Overlay}, cfg)
	if err != nil {
		res.Error = "load: " + err.Error()
		return res
	}
	in.repoPrefix = "filippo.io/sunlight"
	res.LoadS = time.Since(t0).Seconds()
	fmt.Fprintf(os.Stderr, "symgo: loaded %s in %.1fs\n", job.Pkg, res.LoadS)

	// workers
	workers := make([]*Worker, job.Workers)
	for i := range workers {
		workers[i] = &Worker{id: i, in: in, fns: map[*ssa.Function]int{}, approx: map[string]bool{}}
	}
	defer func() {
		for _, w := range workers {
			if w.solver != nil {
				w.solver.close()
			}
		}
	}()

	// package initialisation (concrete)
	t1 := time.Now()
	base := &State{in: in, w: workers[0], epoch: newEpoch(), objs: make([]*Object, len(in.globList)+1)}
	base.gs = []*Goroutine{{id: 0}}
	if initFn := in.mainPkg.Func("init"); initFn != nil {
		base.pushFrame(initFn, nil, nil, nil)
		base.run()
		if base.status != stOK {
			res.Error = fmt.Sprintf("package initialisation failed: %s %s", statusNames[base.status], base.msg)
			return res
		}
	}
	base.status = stRunning
	base.steps = 0
	in.base = base
	res.InitS = time.Since(t1).Seconds()
	fmt.Fprintf(os.Stderr, "symgo: initialisers ran in %.2fs\n", res.InitS)

	for ci := range job.Cases {
		cs := &job.Cases[ci]
		cr := runCase(in, workers, cs)
		fmt.Fprintf(os.Stderr, "symgo: case %-40s %-12s paths=%d queries=%d wall=%.1fs %v\n", cs.Name, cr.Verdict, cr.Paths, cr.Queries, cr.WallS, cr.PathsByStatus)
		res.Cases = append(res.Cases, *cr)
	}
	fnset := map[string]bool{}
	approx := map[string]bool{}
	for _, w := range workers {
		for fn := range w.fns {
			fnset[fn.String()] = true
		}
		for a := range w.approx {
			approx[a] = true
		}
	}
	for n := range fnset {
		if strings.Contains(n, in.repoPrefix) && !strings.Contains(n, "verif") && !strings.Contains(n, "Verif") {
			res.RepoFns = append(res.RepoFns, n)
		} else if !strings.Contains(n, "erif") {
			res.DepFns = append(res.DepFns, n)
		}
	}
	sort.Strings(res.RepoFns)
	sort.Strings(res.DepFns)
	for a := range approx {
		res.Approx = append(res.Approx, a)
	}
	sort.Strings(res.Approx)
	res.Stubs = in.stubList
	res.CutPkgs = in.cutPkgs
	intrinUsed.Range(func(k, _ any) bool { res.Intrinsics = append(res.Intrinsics, k.(string)); return true })
	sort.Strings(res.Intrinsics)
	return res
}

var forkMu sync.Mutex

func runCase(in *Interp, workers []*Worker, cs *CaseSpec) *CaseResult {
	t0 := time.Now()
	cr := &CaseResult{Name: cs.Name, Func: cs.Func, Args: cs.Args, PathsByStatus: map[string]int64{}, Reach: map[string]int64{}}
	fn := in.mainPkg.Func(cs.Func)
	if fn == nil {
		cr.Verdict = "inconclusive"
		cr.Inconclusive = []string{"harness function not found: " + cs.Func}
		return cr
	}
	if cs.Unwind > 0 {
		in.cfg.Unwind = cs.Unwind
	}
	q := newQueue()
	forkMu.Lock()
	root := in.base.fork()
	forkMu.Unlock()
	root.gs[0].frames = nil
	root.cur = 0
	args := make([]Value, len(cs.Args))
	for i, a := range cs.Args {
		args[i] = mkI64(a)
	}
	var q0, s0 int64
	var d0 time.Duration
	for _, w := range workers {
		if w.solver == nil && cs.Replay == nil {
			w.solver = newSolver(in.cfg.Solver, in.cfg.TimeoutMs)
		}
		if w.solver != nil {
			w.solver.reset()
			q0 += w.solver.queries
			d0 += w.solver.dur
			w.solver.maxQ = 0
		}
		w.queue = q
		s0 += w.forks
	}
	root.w = workers[0]
	root.replay = cs.Replay
	func() {
		defer func() {
			if r := recover(); r != nil {
				if e, ok := r.(engineErr); ok {
					root.finish(stEngineErr, e.msg)
					return
				}
				panic(r)
			}
		}()
		root.pushFrame(fn, args, nil, nil)
	}()
	q.push(root)

	var mu sync.Mutex
	var wg sync.WaitGroup
	maxPaths := cs.MaxPaths
	if maxPaths == 0 {
		maxPaths = 5_000_000
	}
	seenInc := map[string]bool{}
	for _, w := range workers {
		wg.Add(1)
		go func(w *Worker) {
			defer wg.Done()
			for {
				st := q.pop()
				if st == nil {
					return
				}
				st.w = w
				st.run()
				mu.Lock()
				name := statusNames[st.status]
				cr.PathsByStatus[name]++
				cr.Steps += st.steps
				if st.status != stInfeasible && st.status != stAssumeFalse {
					cr.Paths++
					cr.Branches += int64(st.symBranches)
					cr.Asserts += int64(st.asserts)
					if st.symBranches > 0 {
						cr.Nontrivial++
					}
					seen := map[string]bool{}
					for _, r := range st.reach {
						if !seen[r] {
							seen[r] = true
							cr.Reach[r]++
						}
					}
				}
				if cs.Replay != nil && st.status != stInfeasible {
					cr.ReplayReach = append([]string{}, st.reach...)
					switch {
					case len(st.viols) > 0:
						cr.ReplayOutcome = "violated: " + st.viols[0].Msg
					case st.status == stOK:
						cr.ReplayOutcome = "passed"
					case st.status == stAssumeFalse:
						cr.ReplayOutcome = "assume-false"
					case st.status == stPanic:
						cr.ReplayOutcome = "panic: " + st.msg
					default:
						cr.ReplayOutcome = name + ": " + st.msg
					}
				}
				switch st.status {
				case stOK:
					if len(cr.Samples) < 3 || (len(cr.Samples) < 6 && st.symBranches > 0 && len(st.nondets) > 0 && cr.Paths%7 == 0) {
						cr.Samples = append(cr.Samples, st.sample(name))
					}
				case stPanic, stDeadlock:
					v := st.violationFromPath(name, st.msg)
					cr.Violations = append(cr.Violations, v)
				case stUnwind, stStepLimit, stEngineErr, stInconclusive:
					if st.status == stUnwind && cs.UnwindIsViolation {
						break
					}
					if !seenInc[st.msg] && len(cr.Inconclusive) < 20 {
						seenInc[st.msg] = true
						cr.Inconclusive = append(cr.Inconclusive, name+": "+st.msg)
					}
				}
				if len(st.viols) > 0 {
					cr.Violations = append(cr.Violations, st.viols...)
				}
				if st.status == stUnwind && cs.UnwindIsViolation {
					v := st.violationFromPath("nontermination", st.msg)
					cr.Violations = append(cr.Violations, v)
				}
				overtime := cs.WallS > 0 && time.Since(t0).Seconds() > cs.WallS
				stop := cr.Paths >= maxPaths || len(cr.Violations) >= 5 || overtime
				mu.Unlock()
				q.done()
				if stop {
					q.stop()
					mu.Lock()
					if cr.Paths >= maxPaths && !seenInc["maxpaths"] {
						seenInc["maxpaths"] = true
						cr.Inconclusive = append(cr.Inconclusive, fmt.Sprintf("path budget %d exhausted", maxPaths))
					}
					if overtime && !seenInc["overtime"] {
						seenInc["overtime"] = true
						cr.Inconclusive = append(cr.Inconclusive, fmt.Sprintf("wall-clock budget of the case (%.0fs) exhausted after %d paths", cs.WallS, cr.Paths))
					}
					mu.Unlock()
					return
				}
			}
		}(w)
	}
	wg.Wait()
	for _, w := range workers {
		if w.solver != nil {
			cr.Queries += w.solver.queries
			cr.SolverS += w.solver.dur.Seconds()
			if s := w.solver.maxQ.Seconds(); s > cr.MaxQueryS {
				cr.MaxQueryS = s
			}
			for _, e := range w.solver.errs {
				if len(cr.Inconclusive) < 20 {
					cr.Inconclusive = append(cr.Inconclusive, "solver: "+e)
				}
			}
			w.solver.errs = nil
		}
		cr.Forks += w.forks
		cr.Concretized += w.concretizations
	}
	cr.Queries -= q0
	cr.SolverS -= d0.Seconds()
	cr.Forks -= s0
	for _, tag := range cs.ExpectReach {
		if cr.Reach[tag] == 0 {
			cr.MissingReach = append(cr.MissingReach, tag)
		}
	}
	switch {
	case len(cr.Violations) > 0:
		cr.Verdict = "violation"
	case len(cr.Inconclusive) > 0 || len(cr.MissingReach) > 0:
		cr.Verdict = "inconclusive"
	default:
		cr.Verdict = "pass"
	}
	if cs.Twin {
		// the twin must be violated; anything else means the harness is vacuous
		if cr.Verdict == "violation" {
			cr.Verdict = "pass"
			cr.Violations = nil
		} else if cr.Verdict == "pass" {
			cr.Verdict = "inconclusive"
			cr.Inconclusive = append(cr.Inconclusive, "vacuity twin was not violated")
		}
	}
	cr.WallS = time.Since(t0).Seconds()
	return cr
}

func (st *State) sample(status string) PathSample {
	ps := PathSample{Status: status, Reach: append([]string(nil), st.reach...)}
	if len(st.trace) > 40 {
		ps.Trace = append([]string(nil), st.trace[:40]...)
	} else {
		ps.Trace = append([]string(nil), st.trace...)
	}
	if st.retval != nil {
		ps.Result = show(st.retval)
	}
	if len(st.nondets) > 0 && st.w.solver != nil {
		ps.Nondets = st.modelOf(nil)
	}
	return ps
}

// modelOf asks the solver for values of all nondet variables under pc ∧ extra.
func (st *State) modelOf(extra *Term) []NondetVal {
	if len(st.nondets) == 0 {
		return nil
	}
	if st.replay != nil {
		out := make([]NondetVal, len(st.nondets))
		for i, nv := range st.nondets {
			out[i] = NondetVal{Name: nv.Name, W: nv.W, V: st.replay[nv.Name]}
		}
		return out
	}
	want := make([]*Term, len(st.nondets))
	for i, nv := range st.nondets {
		want[i] = nv.T
	}
	res, vals := st.w.solver.check(st.pc, extra, want)
	if res != "sat" {
		return nil
	}
	out := make([]NondetVal, len(want))
	for i, nv := range st.nondets {
		out[i] = NondetVal{Name: nv.Name, W: nv.W, V: vals[i]}
	}
	return out
}

func (st *State) violationFromPath(kind, msg string) Violation {
	v := Violation{Kind: kind, Msg: msg, Where: st.where()}
	v.Order = st.modelOf(nil)
	if len(st.trace) > 60 {
		v.Trace = append([]string(nil), st.trace[len(st.trace)-60:]...)
	} else {
		v.Trace = append([]string(nil), st.trace...)
	}
	return v
}
