package main

import (
	"crypto/sha256"
	"encoding/binary"
	"fmt"
	"go/types"
	"math/bits"
	"strings"
	"sync"

	"golang.org/x/tools/go/ssa"
)

var intrinUsed sync.Map

func (in *Interp) intrinFor(fn *ssa.Function) Intrinsic {
	if v, ok := in.intrinFn.Load(fn); ok {
		if v == nil {
			return nil
		}
		return v.(Intrinsic)
	}
	var h Intrinsic
	name := fn.String()
	if x, ok := in.intrins[name]; ok {
		h = x
	} else if fn.Pkg == in.mainPkg && strings.HasPrefix(fn.Name(), "verif") {
		if x, ok := in.intrins["verif:"+fn.Name()]; ok {
			h = x
		}
	} else if o := fn.Origin(); o != nil {
		if x, ok := in.intrins[o.String()]; ok {
			h = x
		}
	}
	if h != nil {
		inner := h
		h = func(st *State, fr *Frame, args []Value, r ssa.Value) (Value, int) {
			intrinUsed.Store(name, true)
			return inner(st, fr, args, r)
		}
		in.intrinFn.Store(fn, h)
	} else {
		in.intrinFn.Store(fn, nil)
	}
	return h
}

// ---- nondet variables ----

func (st *State) nondetVar(name string, w uint8, kind string) *Term {
	if st.reexec {
		for i := len(st.nondets) - 1; i >= 0; i-- {
			nv := st.nondets[i]
			if nv.Serial < st.serial {
				break
			}
			if nv.Serial == st.serial && nv.Idx == st.ndIdx {
				st.ndIdx++
				return nv.T
			}
		}
	}
	if st.nameCtr == nil {
		st.nameCtr = map[string]int{}
	}
	k := st.nameCtr[name]
	st.nameCtr[name] = k + 1
	full := fmt.Sprintf("%s!%d", sanitize(name), k)
	t := newVar(full, w)
	st.nondets = append(st.nondets, NondetVar{Name: full, Kind: kind, W: w, T: t, Serial: st.serial, Idx: st.ndIdx})
	st.ndIdx++
	return t
}

func sanitize(s string) string {
	var sb strings.Builder
	for _, c := range s {
		if c >= 'a' && c <= 'z' || c >= 'A' && c <= 'Z' || c >= '0' && c <= '9' || c == '_' || c == '.' {
			sb.WriteRune(c)
		} else {
			sb.WriteByte('_')
		}
	}
	if sb.Len() == 0 {
		return "v"
	}
	return sb.String()
}

// nondetInt returns a fresh symbolic (or, in replay mode, recorded) integer.
func (st *State) nondetInt(name string, w uint8, signed bool) Int {
	if st.replay != nil {
		if st.nameCtr == nil {
			st.nameCtr = map[string]int{}
		}
		k := st.nameCtr[name]
		st.nameCtr[name] = k + 1
		full := fmt.Sprintf("%s!%d", sanitize(name), k)
		st.nondets = append(st.nondets, NondetVar{Name: full, W: w})
		return mkInt(w, signed, st.replay[full])
	}
	return Int{W: w, Signed: signed, T: st.nondetVar(name, w, "int")}
}

func (st *State) nondetBool(name string) Bool {
	if st.replay != nil {
		if st.nameCtr == nil {
			st.nameCtr = map[string]int{}
		}
		k := st.nameCtr[name]
		st.nameCtr[name] = k + 1
		full := fmt.Sprintf("%s!%d", sanitize(name), k)
		st.nondets = append(st.nondets, NondetVar{Name: full, W: 0})
		return Bool{C: st.replay[full] != 0}
	}
	return Bool{T: st.nondetVar(name, 0, "bool")}
}

func (st *State) assumeNoFork(c *Term) {
	if c.Op == "true" {
		return
	}
	st.pc = st.pc.push(c)
}

func strArg(v Value) string {
	s := v.(Str)
	if s.B != nil {
		// messages and tags may embed symbolic data (e.g. a tampered object key): render it as '?'
		var sb strings.Builder
		for _, b := range s.B {
			if bi := b.(Int); bi.T == nil {
				sb.WriteByte(byte(bi.C))
			} else {
				sb.WriteByte('?')
			}
		}
		return sb.String()
	}
	return s.S
}

func (st *State) mkError(msg string) Value {
	pkg := st.in.prog.ImportedPackage("errors")
	t := types.NewPointer(pkg.Type("errorString").Type())
	id := st.alloc(t.Elem())
	st.wobj(id).Elems[0] = Str{S: msg}
	return Iface{T: t, V: Ptr{Obj: id}}
}

func done(v Value) (Value, int) { return v, hDone }

func registerIntrinsics(in *Interp) {
	I := in.intrins

	// ---- harness API ----
	I["verif:verifNondetBool"] = func(st *State, fr *Frame, a []Value, _ ssa.Value) (Value, int) {
		return done(st.nondetBool(strArg(a[0])))
	}
	I["verif:verifNondetInt64"] = func(st *State, fr *Frame, a []Value, _ ssa.Value) (Value, int) {
		return done(st.nondetInt(strArg(a[0]), 64, true))
	}
	I["verif:verifNondetInt"] = I["verif:verifNondetInt64"]
	I["verif:verifNondetUint64"] = func(st *State, fr *Frame, a []Value, _ ssa.Value) (Value, int) {
		return done(st.nondetInt(strArg(a[0]), 64, false))
	}
	I["verif:verifNondetUint32"] = func(st *State, fr *Frame, a []Value, _ ssa.Value) (Value, int) {
		return done(st.nondetInt(strArg(a[0]), 32, false))
	}
	I["verif:verifNondetUint16"] = func(st *State, fr *Frame, a []Value, _ ssa.Value) (Value, int) {
		return done(st.nondetInt(strArg(a[0]), 16, false))
	}
	I["verif:verifNondetByte"] = func(st *State, fr *Frame, a []Value, _ ssa.Value) (Value, int) {
		return done(st.nondetInt(strArg(a[0]), 8, false))
	}
	I["verif:verifNondetBytes"] = func(st *State, fr *Frame, a []Value, _ ssa.Value) (Value, int) {
		n := st.concrete(a[1].(Int))
		vals := make([]Value, n)
		for i := range vals {
			vals[i] = st.nondetInt(strArg(a[0]), 8, false)
		}
		return done(st.newSliceOf(vals, types.Typ[types.Uint8]))
	}
	I["verif:verifNondetString"] = func(st *State, fr *Frame, a []Value, _ ssa.Value) (Value, int) {
		n := st.concrete(a[1].(Int))
		vals := make([]Value, n)
		for i := range vals {
			vals[i] = st.nondetInt(strArg(a[0]), 8, false)
		}
		return done(normStr(vals))
	}
	// verifChoice(name, n) returns a value in [0,n)
	I["verif:verifChoice"] = func(st *State, fr *Frame, a []Value, _ ssa.Value) (Value, int) {
		n := st.concrete(a[1].(Int))
		v := st.nondetInt(strArg(a[0]), 64, true)
		if v.T != nil {
			st.assumeNoFork(tCmp("bvult", v.T, bvConst(64, uint64(n))))
		}
		return done(v)
	}
	// verifConcretize forks over every feasible value of a (small-range) symbolic integer
	I["verif:verifConcretize"] = func(st *State, fr *Frame, a []Value, _ ssa.Value) (Value, int) {
		return done(mkI64(int64(st.concrete(a[0].(Int)))))
	}
	I["verif:verifAssume"] = func(st *State, fr *Frame, a []Value, _ ssa.Value) (Value, int) {
		c := a[0].(Bool)
		if c.T != nil {
			st.assume(c.T)
		} else if !c.C {
			if st.replay != nil {
				st.finish(stAssumeFalse, "assumption false in replay")
			} else {
				st.finish(stAssumeFalse, "")
			}
			panic(forkAbort{})
		}
		return done(nil)
	}
	I["verif:verifAssert"] = func(st *State, fr *Frame, a []Value, _ ssa.Value) (Value, int) {
		st.assertCond(a[0].(Bool), strArg(a[1]))
		return done(nil)
	}
	I["verif:verifFail"] = func(st *State, fr *Frame, a []Value, _ ssa.Value) (Value, int) {
		st.assertCond(Bool{C: false}, strArg(a[0]))
		return done(nil)
	}
	I["verif:verifUnsupported"] = func(st *State, fr *Frame, a []Value, _ ssa.Value) (Value, int) {
		// the environment model cannot interpret what the code asked of it: inconclusive, never a verdict
		unsupported("environment model: " + strArg(a[0]))
		return done(nil)
	}
	I["verif:verifReach"] = func(st *State, fr *Frame, a []Value, _ ssa.Value) (Value, int) {
		st.reach = append(st.reach, strArg(a[0]))
		return done(nil)
	}
	I["verif:verifTrace"] = func(st *State, fr *Frame, a []Value, _ ssa.Value) (Value, int) {
		if len(st.trace) < 400 {
			s := a[0].(Str)
			if s.B != nil {
				var sb strings.Builder
				for _, b := range s.B {
					if bi := b.(Int); bi.T == nil {
						sb.WriteByte(byte(bi.C))
					} else {
						sb.WriteString("?")
					}
				}
				st.trace = append(st.trace, sb.String())
			} else {
				st.trace = append(st.trace, s.S)
			}
		}
		return done(nil)
	}
	I["verif:verifTraceInt"] = func(st *State, fr *Frame, a []Value, _ ssa.Value) (Value, int) {
		if len(st.trace) < 400 {
			st.trace = append(st.trace, strArg(a[0])+"="+show(a[1]))
		}
		return done(nil)
	}
	I["verif:verifSymbolic"] = func(st *State, fr *Frame, a []Value, _ ssa.Value) (Value, int) {
		return done(Bool{C: st.replay == nil})
	}
	I["verif:verifIsConcreteBytes"] = func(st *State, fr *Frame, a []Value, _ ssa.Value) (Value, int) {
		_, ok := st.concBytes(a[0].(Slice))
		return done(Bool{C: ok})
	}
	I["verif:verifYield"] = func(st *State, fr *Frame, a []Value, _ ssa.Value) (Value, int) {
		g := st.g()
		fr.pc++
		g.status = gYield
		st.schedule()
		return nil, hTaken
	}
	I["verif:verifTryRun"] = func(st *State, fr *Frame, a []Value, res ssa.Value) (Value, int) {
		f := a[0].(Func)
		snap := st.fork()
		st.tryStack = append(st.tryStack[:len(st.tryStack):len(st.tryStack)], &tryRec{snap: snap, depth: len(st.g().frames), gid: st.g().id, res: res})
		st.invoke(fr, f, nil, nil, false)
		if len(st.g().frames) == st.tryStack[len(st.tryStack)-1].depth {
			// the closure was handled inline
			st.tryStack = st.tryStack[:len(st.tryStack)-1]
			st.set(fr, res, Bool{C: true})
		} else {
			st.top().resultTo = nil
		}
		return nil, hTaken
	}
	I["verif:verifMapNondetOrder"] = func(st *State, fr *Frame, a []Value, _ ssa.Value) (Value, int) {
		m := a[0].(Iface).V.(Map)
		if m.Obj != 0 && st.replay == nil {
			st.wobj(m.Obj).M.NondetOrder = true
		}
		return done(nil)
	}
	I["verif:verifHeld"] = func(st *State, fr *Frame, a []Value, _ ssa.Value) (Value, int) {
		p := a[0].(Iface).V.(Ptr)
		return done(Bool{C: st.locks[p.Obj] == st.g().id+1})
	}
	// verifAnd / verifOr / verifImplies combine conditions into one term without branching, so that a
	// batch of checks costs a single solver query
	I["verif:verifAnd"] = func(st *State, fr *Frame, a []Value, _ ssa.Value) (Value, int) {
		return done(mkBoolT(tAnd(a[0].(Bool).term(), a[1].(Bool).term())))
	}
	I["verif:verifOr"] = func(st *State, fr *Frame, a []Value, _ ssa.Value) (Value, int) {
		return done(mkBoolT(tOr(a[0].(Bool).term(), a[1].(Bool).term())))
	}
	I["verif:verifBytesEq"] = func(st *State, fr *Frame, a []Value, _ ssa.Value) (Value, int) {
		return done(mkBoolT(st.bytesEq(a[0].(Slice), a[1].(Slice))))
	}

	// ---- fmt / errors ----
	I["fmt.Errorf"] = func(st *State, fr *Frame, a []Value, _ ssa.Value) (Value, int) {
		format := strArg(a[0])
		va := a[1].(Slice)
		// collect %w operands in order
		var wrapped []Value
		argi := 0
		for i := 0; i < len(format); i++ {
			if format[i] != '%' {
				continue
			}
			i++
			for i < len(format) && strings.IndexByte("+-# 0123456789.*[]", format[i]) >= 0 {
				i++
			}
			if i >= len(format) {
				break
			}
			if format[i] == '%' {
				continue
			}
			if format[i] == 'w' && argi < va.Len {
				if e, ok := st.sliceGet(va, argi).(Iface); ok && e.T != nil {
					wrapped = append(wrapped, e)
				}
			}
			argi++
		}
		fmtPkg := st.in.prog.ImportedPackage("fmt")
		switch {
		case len(wrapped) == 0 || fmtPkg == nil:
			return done(st.mkError(format))
		case len(wrapped) == 1:
			t := types.NewPointer(fmtPkg.Type("wrapError").Type())
			id := st.alloc(t.Elem())
			o := st.wobj(id)
			o.Elems[0] = Str{S: format}
			o.Elems[1] = wrapped[0]
			return done(Iface{T: t, V: Ptr{Obj: id}})
		default:
			t := types.NewPointer(fmtPkg.Type("wrapErrors").Type())
			id := st.alloc(t.Elem())
			o := st.wobj(id)
			o.Elems[0] = Str{S: format}
			errT := types.Universe.Lookup("error").Type()
			o.Elems[1] = st.newSliceOf(wrapped, errT)
			return done(Iface{T: t, V: Ptr{Obj: id}})
		}
	}
	I["fmt.Sprintf"] = func(st *State, fr *Frame, a []Value, _ ssa.Value) (Value, int) {
		return done(st.sprintf(strArg(a[0]), st.sliceVals(a[1].(Slice))))
	}
	I["fmt.Sprint"] = func(st *State, fr *Frame, a []Value, _ ssa.Value) (Value, int) {
		vals := st.sliceVals(a[0].(Slice))
		f := strings.Repeat("%v", len(vals))
		return done(st.sprintf(f, vals))
	}
	I["fmt.Fprintf"] = func(st *State, fr *Frame, a []Value, res ssa.Value) (Value, int) {
		// formatting into a *bytes.Buffer is modelled (its content may be observable); other writers are dropped
		if w, ok := a[0].(Iface); ok && w.T != nil && w.T.String() == "*bytes.Buffer" {
			if p := st.in.prog.ImportedPackage("bytes"); p != nil {
				ms := st.in.prog.MethodSets.MethodSet(w.T)
				if sel := ms.Lookup(nil, "WriteString"); sel != nil {
					text := st.sprintf(strArg(a[1]), st.sliceVals(a[2].(Slice)))
					st.pushFrame(st.in.prog.MethodValue(sel), []Value{w.V, text}, nil, res)
					return nil, hTaken
				}
			}
		}
		return done(Tuple{mkI64(0), Iface{}})
	}
	drop := func(st *State, fr *Frame, a []Value, _ ssa.Value) (Value, int) {
		return done(Tuple{mkI64(0), Iface{}})
	}
	I["fmt.Fprintln"] = drop
	I["fmt.Fprint"] = drop
	I["fmt.Println"] = drop
	I["fmt.Printf"] = drop
	I["errors.Is"] = func(st *State, fr *Frame, a []Value, res ssa.Value) (Value, int) {
		e, t := a[0].(Iface), a[1].(Iface)
		if e.T == nil || t.T == nil {
			return done(Bool{C: e.T == nil && t.T == nil})
		}
		fn := st.in.prog.ImportedPackage("errors").Func("is")
		st.pushFrame(fn, []Value{e, t, Bool{C: types.Comparable(t.T)}}, nil, res)
		return nil, hTaken
	}
	I["errors.As"] = func(st *State, fr *Frame, a []Value, res ssa.Value) (Value, int) {
		e, t := a[0].(Iface), a[1].(Iface)
		if e.T == nil {
			return done(Bool{})
		}
		if t.T == nil {
			panic(goPanic{"errors: target cannot be nil"})
		}
		pt, ok := t.T.Underlying().(*types.Pointer)
		if !ok {
			panic(goPanic{"errors: target must be a non-nil pointer"})
		}
		target := t.V.(Ptr)
		want := pt.Elem()
		var walk func(cur Iface, depth int) bool
		walk = func(cur Iface, depth int) bool {
			if cur.T == nil || depth > 50 {
				return false
			}
			if it, isI := want.Underlying().(*types.Interface); isI {
				if st.in.implements(cur.T, it) {
					st.store(target, cur)
					return true
				}
			} else if types.Identical(cur.T, want) {
				st.store(target, cur.V)
				return true
			}
			if cur.T.String() == "*fmt.wrapErrors" {
				errs := st.robj(cur.V.(Ptr).Obj).Elems[1].(Slice)
				for i := 0; i < errs.Len; i++ {
					if walk(st.sliceGet(errs, i).(Iface), depth+1) {
						return true
					}
				}
				return false
			}
			nxt, multi, ok := st.unwrapErr(cur)
			if !ok {
				return false
			}
			if multi {
				unsupported("errors.As over a custom multi-error")
			}
			return walk(nxt, depth+1)
		}
		return done(Bool{C: walk(e, 0)})
	}
	I["errors.Unwrap"] = func(st *State, fr *Frame, a []Value, res ssa.Value) (Value, int) {
		e := a[0].(Iface)
		if e.T == nil {
			return done(Iface{})
		}
		nxt, multi, ok := st.unwrapErr(e)
		if !ok || multi {
			return done(Iface{})
		}
		return done(nxt)
	}

	// ---- bytes / bytealg ----
	I["bytes.Equal"] = func(st *State, fr *Frame, a []Value, _ ssa.Value) (Value, int) {
		return done(mkBoolT(st.bytesEq(a[0].(Slice), a[1].(Slice))))
	}
	I["internal/bytealg.Equal"] = I["bytes.Equal"]
	I["internal/bytealg.IndexByte"] = func(st *State, fr *Frame, a []Value, _ ssa.Value) (Value, int) {
		return done(st.indexByte(st.sliceVals(a[0].(Slice)), a[1].(Int)))
	}
	I["internal/bytealg.IndexByteString"] = func(st *State, fr *Frame, a []Value, _ ssa.Value) (Value, int) {
		return done(st.indexByte(a[0].(Str).bytes(), a[1].(Int)))
	}
	I["internal/bytealg.Count"] = func(st *State, fr *Frame, a []Value, _ ssa.Value) (Value, int) {
		return done(st.countByte(st.sliceVals(a[0].(Slice)), a[1].(Int)))
	}
	I["internal/bytealg.CountString"] = func(st *State, fr *Frame, a []Value, _ ssa.Value) (Value, int) {
		return done(st.countByte(a[0].(Str).bytes(), a[1].(Int)))
	}
	I["internal/bytealg.Compare"] = func(st *State, fr *Frame, a []Value, _ ssa.Value) (Value, int) {
		x, okx := st.concBytes(a[0].(Slice))
		y, oky := st.concBytes(a[1].(Slice))
		if !okx || !oky {
			unsupported("bytealg.Compare on symbolic bytes")
		}
		return done(mkI64(int64(strings.Compare(string(x), string(y)))))
	}
	I["internal/bytealg.CompareString"] = func(st *State, fr *Frame, a []Value, _ ssa.Value) (Value, int) {
		x, y := a[0].(Str), a[1].(Str)
		if x.B != nil || y.B != nil {
			unsupported("bytealg.CompareString on symbolic strings")
		}
		return done(mkI64(int64(strings.Compare(x.S, y.S))))
	}
	I["strings.Compare"] = I["internal/bytealg.CompareString"]
	I["internal/bytealg.MakeNoZero"] = func(st *State, fr *Frame, a []Value, _ ssa.Value) (Value, int) {
		n := st.concrete(a[0].(Int))
		return done(st.makeSlice(types.Typ[types.Uint8], n, n))
	}
	I["internal/bytealg.Index"] = func(st *State, fr *Frame, a []Value, _ ssa.Value) (Value, int) {
		return done(st.indexSeq(st.sliceVals(a[0].(Slice)), st.sliceVals(a[1].(Slice))))
	}
	I["internal/bytealg.IndexString"] = func(st *State, fr *Frame, a []Value, _ ssa.Value) (Value, int) {
		return done(st.indexSeq(a[0].(Str).bytes(), a[1].(Str).bytes()))
	}
	I["internal/bytealg.LastIndexByte"] = func(st *State, fr *Frame, a []Value, _ ssa.Value) (Value, int) {
		return done(st.lastIndexByte(st.sliceVals(a[0].(Slice)), a[1].(Int)))
	}
	I["internal/bytealg.LastIndexByteString"] = func(st *State, fr *Frame, a []Value, _ ssa.Value) (Value, int) {
		return done(st.lastIndexByte(a[0].(Str).bytes(), a[1].(Int)))
	}
	I["internal/stringslite.Index"] = func(st *State, fr *Frame, a []Value, _ ssa.Value) (Value, int) {
		return done(st.indexSeq(a[0].(Str).bytes(), a[1].(Str).bytes()))
	}
	I["strings.Index"] = I["internal/stringslite.Index"]
	I["bytes.Index"] = I["internal/bytealg.Index"]
	I["internal/abi.NoEscape"] = func(st *State, fr *Frame, a []Value, _ ssa.Value) (Value, int) { return done(a[0]) }
	I["internal/abi.Escape"] = I["internal/abi.NoEscape"]
	I["(*strings.Builder).copyCheck"] = func(st *State, fr *Frame, a []Value, _ ssa.Value) (Value, int) { return done(nil) }
	I["internal/cpu.Initialize"] = func(st *State, fr *Frame, a []Value, _ ssa.Value) (Value, int) { return done(nil) }

	// ---- math/bits ----
	for name, f := range map[string]func(uint64) int{
		"math/bits.TrailingZeros64": bits.TrailingZeros64, "math/bits.Len64": bits.Len64, "math/bits.OnesCount64": bits.OnesCount64,
		"math/bits.LeadingZeros64": bits.LeadingZeros64,
		"math/bits.TrailingZeros":  func(x uint64) int { return bits.TrailingZeros64(x) }, "math/bits.Len": func(x uint64) int { return bits.Len64(x) },
		"math/bits.OnesCount": func(x uint64) int { return bits.OnesCount64(x) }, "math/bits.LeadingZeros": func(x uint64) int { return bits.LeadingZeros64(x) },
		"math/bits.Len32": func(x uint64) int { return bits.Len32(uint32(x)) }, "math/bits.TrailingZeros32": func(x uint64) int { return bits.TrailingZeros32(uint32(x)) },
		"math/bits.LeadingZeros32": func(x uint64) int { return bits.LeadingZeros32(uint32(x)) }, "math/bits.OnesCount32": func(x uint64) int { return bits.OnesCount32(uint32(x)) },
		"math/bits.Len8": func(x uint64) int { return bits.Len8(uint8(x)) }, "math/bits.Len16": func(x uint64) int { return bits.Len16(uint16(x)) },
		"math/bits.TrailingZeros8": func(x uint64) int { return bits.TrailingZeros8(uint8(x)) }, "math/bits.OnesCount8": func(x uint64) int { return bits.OnesCount8(uint8(x)) },
	} {
		f, name := f, name
		I[name] = func(st *State, fr *Frame, a []Value, _ ssa.Value) (Value, int) {
			x := a[0].(Int)
			if x.T != nil {
				return done(st.symBits(name, x))
			}
			return done(mkI64(int64(f(x.C))))
		}
	}
	I["math/bits.Mul64"] = func(st *State, fr *Frame, a []Value, _ ssa.Value) (Value, int) {
		x, y := a[0].(Int), a[1].(Int)
		if x.T == nil && y.T == nil {
			hi, lo := bits.Mul64(x.C, y.C)
			return done(Tuple{mkInt(64, false, hi), mkInt(64, false, lo)})
		}
		p := tBV("bvmul", tZext(x.term(), 128), tZext(y.term(), 128))
		return done(Tuple{mkIntT(64, false, tExtract(p, 127, 64)), mkIntT(64, false, tExtract(p, 63, 0))})
	}
	I["math/bits.Add64"] = func(st *State, fr *Frame, a []Value, _ ssa.Value) (Value, int) {
		x, y, c := a[0].(Int), a[1].(Int), a[2].(Int)
		if x.T == nil && y.T == nil && c.T == nil {
			s, co := bits.Add64(x.C, y.C, c.C)
			return done(Tuple{mkInt(64, false, s), mkInt(64, false, co)})
		}
		s := tBV("bvadd", tBV("bvadd", tZext(x.term(), 65), tZext(y.term(), 65)), tZext(c.term(), 65))
		return done(Tuple{mkIntT(64, false, tExtract(s, 63, 0)), mkIntT(64, false, tZext(tExtract(s, 64, 64), 64))})
	}
	I["math/bits.ReverseBytes64"] = func(st *State, fr *Frame, a []Value, _ ssa.Value) (Value, int) {
		x := a[0].(Int)
		if x.T != nil {
			unsupported("symbolic ReverseBytes64")
		}
		return done(mkInt(64, false, bits.ReverseBytes64(x.C)))
	}
	I["math/bits.ReverseBytes32"] = func(st *State, fr *Frame, a []Value, _ ssa.Value) (Value, int) {
		x := a[0].(Int)
		if x.T != nil {
			unsupported("symbolic ReverseBytes32")
		}
		return done(mkInt(32, false, uint64(bits.ReverseBytes32(uint32(x.C)))))
	}
	I["math/bits.RotateLeft32"] = func(st *State, fr *Frame, a []Value, _ ssa.Value) (Value, int) {
		x, k := a[0].(Int), a[1].(Int)
		if x.T != nil || k.T != nil {
			unsupported("symbolic RotateLeft32")
		}
		return done(mkInt(32, false, uint64(bits.RotateLeft32(uint32(x.C), int(k.sval())))))
	}
	I["math/bits.RotateLeft64"] = func(st *State, fr *Frame, a []Value, _ ssa.Value) (Value, int) {
		x, k := a[0].(Int), a[1].(Int)
		if x.T != nil || k.T != nil {
			unsupported("symbolic RotateLeft64")
		}
		return done(mkInt(64, false, bits.RotateLeft64(x.C, int(k.sval()))))
	}

	// ---- crypto/sha256 (ideal hash oracle) ----
	digestT := func(st *State) types.Type {
		for _, p := range st.in.prog.AllPackages() {
			if p.Pkg.Path() == "crypto/internal/fips140/sha256" {
				return types.NewPointer(p.Type("Digest").Type())
			}
		}
		panic(engineErr{"no sha256 digest type"})
	}
	I["crypto/sha256.New"] = func(st *State, fr *Frame, a []Value, _ ssa.Value) (Value, int) {
		id := st.newObj(&Object{Agg: true})
		return done(Iface{T: digestT(st), V: Ptr{Obj: id}})
	}
	I["(*crypto/internal/fips140/sha256.Digest).Write"] = func(st *State, fr *Frame, a []Value, _ ssa.Value) (Value, int) {
		o := st.wobj(a[0].(Ptr).Obj)
		sl := a[1].(Slice)
		o.Elems = append(o.Elems, st.sliceVals(sl)...)
		return done(Tuple{mkI64(int64(sl.Len)), Iface{}})
	}
	I["(*crypto/internal/fips140/sha256.Digest).Reset"] = func(st *State, fr *Frame, a []Value, _ ssa.Value) (Value, int) {
		st.wobj(a[0].(Ptr).Obj).Elems = nil
		return done(nil)
	}
	I["(*crypto/internal/fips140/sha256.Digest).Size"] = func(st *State, fr *Frame, a []Value, _ ssa.Value) (Value, int) {
		return done(mkI64(32))
	}
	I["(*crypto/internal/fips140/sha256.Digest).BlockSize"] = func(st *State, fr *Frame, a []Value, _ ssa.Value) (Value, int) {
		return done(mkI64(64))
	}
	I["(*crypto/internal/fips140/sha256.Digest).Sum"] = func(st *State, fr *Frame, a []Value, _ ssa.Value) (Value, int) {
		o := st.robj(a[0].(Ptr).Obj)
		d := st.hashOracle(o.Elems)
		add := make([]Value, 32)
		for i := range add {
			add[i] = mkByte(d[i])
		}
		return done(st.appendVals(a[1].(Slice), add))
	}
	I["crypto/sha256.Sum256"] = func(st *State, fr *Frame, a []Value, _ ssa.Value) (Value, int) {
		d := st.hashOracle(st.sliceVals(a[0].(Slice)))
		out := make(Array, 32)
		for i := range out {
			out[i] = mkByte(d[i])
		}
		return done(out)
	}

	// ---- encoding/binary fast paths are interpreted; runtime helpers ----
	nop := func(st *State, fr *Frame, a []Value, _ ssa.Value) (Value, int) { return done(nil) }
	I["runtime.Caller"] = func(st *State, fr *Frame, a []Value, _ ssa.Value) (Value, int) {
		return done(Tuple{mkInt(64, false, 0), Str{}, mkI64(0), Bool{}})
	}
	I["runtime.KeepAlive"] = nop
	I["runtime.SetFinalizer"] = nop
	I["runtime.Gosched"] = nop
	I["runtime.GC"] = nop
	I["time.Sleep"] = nop
	I["runtime.GOMAXPROCS"] = func(st *State, fr *Frame, a []Value, _ ssa.Value) (Value, int) { return done(mkI64(1)) }
	I["runtime.NumCPU"] = I["runtime.GOMAXPROCS"]
	I["testing.Testing"] = func(st *State, fr *Frame, a []Value, _ ssa.Value) (Value, int) { return done(Bool{C: true}) }

	I["context.WithValue"] = func(st *State, fr *Frame, a []Value, _ ssa.Value) (Value, int) {
		parent, key := a[0].(Iface), a[1].(Iface)
		if parent.T == nil {
			panic(goPanic{"cannot create context from nil parent"})
		}
		if key.T == nil {
			panic(goPanic{"nil key"})
		}
		if !types.Comparable(key.T) {
			panic(goPanic{"key is not comparable"})
		}
		t := st.in.prog.ImportedPackage("context").Type("valueCtx").Type()
		id := st.alloc(t)
		o := st.wobj(id)
		o.Elems[0], o.Elems[1], o.Elems[2] = parent, key, a[2]
		return done(Iface{T: types.NewPointer(t), V: Ptr{Obj: id}})
	}
	I["maps.clone"] = func(st *State, fr *Frame, a []Value, _ ssa.Value) (Value, int) {
		e := a[0].(Iface)
		m := e.V.(Map)
		if m.Obj == 0 {
			return done(e)
		}
		o := st.robj(m.Obj).clone(st.epoch)
		// compact tombstones so that iteration order stays insertion order of live keys
		return done(Iface{T: e.T, V: Map{Obj: st.newObj(o)}})
	}
	registerSyncIntrinsics(in)
	registerCryptoIntrinsics(in)
	registerBase64Intrinsics(in)
	registerHandlerIntrinsics(in)
	registerTimeIntrinsics(in)
}

// ---- assertion handling ----

func (st *State) assertCond(c Bool, msg string) {
	st.asserts++
	if c.T == nil {
		if !c.C {
			st.recordViolation("assert", msg, nil)
			st.finish(stOK, "assertion failed")
			panic(forkAbort{})
		}
		return
	}
	notc := tNot(c.T)
	r, _ := st.w.solver.check(st.pc, notc, nil)
	switch r {
	case "unsat":
		return
	case "sat":
		st.recordViolation("assert", msg, notc)
		// continue under the assertion
		st.assume(c.T)
	default:
		st.inconclusive("solver " + r + " on assertion: " + msg)
	}
}

func (st *State) recordViolation(kind, msg string, extra *Term) {
	v := Violation{Kind: kind, Msg: msg, Where: st.where()}
	v.Order = st.modelOf(extra)
	if len(st.trace) > 60 {
		v.Trace = append([]string(nil), st.trace[len(st.trace)-60:]...)
	} else {
		v.Trace = append([]string(nil), st.trace...)
	}
	st.viols = append(st.viols, v)
}

// ---- byte-string helpers ----

func (st *State) bytesEq(x, y Slice) *Term {
	if x.Len != y.Len {
		return tFalse
	}
	r := tTrue
	for i := 0; i < x.Len; i++ {
		a, b := st.sliceGet(x, i).(Int), st.sliceGet(y, i).(Int)
		if a.T == nil && b.T == nil {
			if a.C != b.C {
				return tFalse
			}
			continue
		}
		r = tAnd(r, tEq(a.term(), b.term()))
	}
	return r
}

func valsEq(x, y []Value) *Term {
	if len(x) != len(y) {
		return tFalse
	}
	r := tTrue
	for i := range x {
		a, b := x[i].(Int), y[i].(Int)
		if a.T == nil && b.T == nil {
			if a.C != b.C {
				return tFalse
			}
			continue
		}
		r = tAnd(r, tEq(a.term(), b.term()))
	}
	return r
}

// indexByte returns the first index of c in b, or -1; forks once per candidate position when symbolic.
func (st *State) indexByte(b []Value, c Int) Value {
	for i, v := range b {
		if st.decide(tEq(v.(Int).term(), c.term())) {
			return mkI64(int64(i))
		}
	}
	return mkI64(-1)
}

func (st *State) lastIndexByte(b []Value, c Int) Value {
	for i := len(b) - 1; i >= 0; i-- {
		if st.decide(tEq(b[i].(Int).term(), c.term())) {
			return mkI64(int64(i))
		}
	}
	return mkI64(-1)
}

func (st *State) countByte(b []Value, c Int) Value {
	n := 0
	for _, v := range b {
		if st.decide(tEq(v.(Int).term(), c.term())) {
			n++
		}
	}
	return mkI64(int64(n))
}

func (st *State) indexSeq(hay, needle []Value) Value {
	if len(needle) == 0 {
		return mkI64(0)
	}
	for i := 0; i+len(needle) <= len(hay); i++ {
		if st.decide(valsEq(hay[i:i+len(needle)], needle)) {
			return mkI64(int64(i))
		}
	}
	return mkI64(-1)
}

func (st *State) symBits(name string, x Int) Value {
	w := x.W
	if strings.HasSuffix(name, "32") {
		w = 32
	} else if strings.HasSuffix(name, "16") {
		w = 16
	} else if strings.HasSuffix(name, "8") && !strings.HasSuffix(name, "64") {
		w = 8
	}
	t := x.T
	if t.W > w {
		t = tExtract(t, w-1, 0)
	}
	base := name[strings.LastIndex(name, ".")+1:]
	base = strings.TrimRight(base, "0123456789")
	switch base {
	case "Len":
		// Len(x) = number of bits needed: ite chain from the top bit
		res := bvConst(64, 0)
		for k := uint8(0); k < w; k++ {
			bit := tEq(tExtract(t, k, k), bvConst(1, 1))
			res = tIte(bit, bvConst(64, uint64(k)+1), res)
		}
		return mkIntT(64, true, res)
	case "LeadingZeros":
		res := bvConst(64, uint64(w))
		for k := uint8(0); k < w; k++ {
			bit := tEq(tExtract(t, k, k), bvConst(1, 1))
			res = tIte(bit, bvConst(64, uint64(w-1-k)), res)
		}
		return mkIntT(64, true, res)
	case "TrailingZeros":
		res := bvConst(64, uint64(w))
		for k := int(w) - 1; k >= 0; k-- {
			bit := tEq(tExtract(t, uint8(k), uint8(k)), bvConst(1, 1))
			res = tIte(bit, bvConst(64, uint64(k)), res)
		}
		return mkIntT(64, true, res)
	case "OnesCount":
		res := bvConst(64, 0)
		for k := uint8(0); k < w; k++ {
			res = tBV("bvadd", res, tZext(tExtract(t, k, k), 64))
		}
		return mkIntT(64, true, res)
	}
	unsupported("symbolic %s", name)
	return nil
}

// ---- hash oracle ----

// hashOracle returns SHA-256 of the byte values: the real digest for concrete input, otherwise a
// pseudo-digest chosen so that equal inputs get equal digests and different inputs different ones
// (ideal hash; the equality with every earlier input of the same length is decided by forking).
func (st *State) hashOracle(in []Value) [32]byte {
	conc := true
	for _, v := range in {
		if v.(Int).T != nil {
			conc = false
			break
		}
	}
	if conc {
		b := make([]byte, len(in))
		for i, v := range in {
			b[i] = byte(v.(Int).C)
		}
		d := sha256.Sum256(b)
		// record only if some earlier symbolic input of this length exists or may come: keep all short inputs
		if len(st.hashes) < 4096 {
			for _, h := range st.hashes {
				if len(h.in) == len(in) && h.out == d {
					return d
				}
			}
			// symbolic entries of the same length must be compared with this concrete input too
			for _, h := range st.hashes {
				if len(h.in) != len(in) || !anySym(h.in) {
					continue
				}
				if st.decide(valsEq(in, h.in)) {
					return h.out
				}
			}
			st.hashes = append(st.hashes[:len(st.hashes):len(st.hashes)], hashEntry{in: append([]Value(nil), in...), out: d})
		}
		return d
	}
	for _, h := range st.hashes {
		if len(h.in) != len(in) {
			continue
		}
		if st.decide(valsEq(in, h.in)) {
			return h.out
		}
	}
	var seed [16]byte
	binary.BigEndian.PutUint64(seed[:8], uint64(len(st.hashes)))
	binary.BigEndian.PutUint64(seed[8:], uint64(len(in)))
	d := sha256.Sum256(append([]byte("symgo-pseudo-digest"), seed[:]...))
	st.hashes = append(st.hashes[:len(st.hashes):len(st.hashes)], hashEntry{in: append([]Value(nil), in...), out: d})
	return d
}

func anySym(vs []Value) bool {
	for _, v := range vs {
		if v.(Int).T != nil {
			return true
		}
	}
	return false
}

// unwrapErr follows one step of the error chain for the standard wrappers and for types with an
// Unwrap method whose body is a plain field read.
func (st *State) unwrapErr(e Iface) (next Iface, multi bool, ok bool) {
	ts := e.T.String()
	switch ts {
	case "*fmt.wrapError":
		o := st.robj(e.V.(Ptr).Obj)
		return o.Elems[1].(Iface), false, true
	case "*fmt.wrapErrors":
		return Iface{}, true, true
	case "*errors.errorString":
		return Iface{}, false, false
	}
	// generic: call Unwrap synchronously if present
	methMu.Lock()
	ms := st.in.prog.MethodSets.MethodSet(e.T)
	var sel *types.Selection
	for i := 0; i < ms.Len(); i++ {
		if ms.At(i).Obj().Name() == "Unwrap" {
			sel = ms.At(i)
		}
	}
	var fn *ssa.Function
	if sel != nil {
		fn = st.in.prog.MethodValue(sel)
	}
	methMu.Unlock()
	if fn == nil {
		return Iface{}, false, false
	}
	res := st.callSync(fn, []Value{e.V})
	if r, isI := res.(Iface); isI {
		return r, false, r.T != nil
	}
	return Iface{}, true, true
}

// callSync runs fn to completion on the current goroutine (no forking allowed inside).
func (st *State) callSync(fn *ssa.Function, args []Value) Value {
	g := st.g()
	depth := len(g.frames)
	nf := st.pushFrame(fn, args, nil, nil)
	nf.syncMarker = true
	st.syncDepth++
	defer func() { st.syncDepth-- }()
	savedForced, savedDecs, savedFpos := st.forced, st.decs, st.fpos
	for len(g.frames) > depth && st.status == stRunning {
		fr := g.frames[len(g.frames)-1]
		if fr.panicking {
			st.unwind()
			continue
		}
		st.steps++
		st.exec(fr, fr.block.Instrs[fr.pc])
	}
	st.forced, st.decs, st.fpos = savedForced, savedDecs, savedFpos
	return st.retval
}
