package main

import (
	"bufio"
	"fmt"
	"io"
	"os"
	"os/exec"
	"strconv"
	"strings"
	"time"
)

// PC is a persistent path condition (linked list, shared between forks).
type PC struct {
	parent *PC
	t      *Term
	depth  int
	hard   bool
}

func (p *PC) push(t *Term) *PC {
	d := 0
	if p != nil {
		d = p.depth
	}
	return &PC{parent: p, t: t, depth: d + 1, hard: t.hard || (p != nil && p.hard)}
}

func (p *PC) list() []*Term {
	var out []*Term
	for q := p; q != nil; q = q.parent {
		out = append(out, q.t)
	}
	for i, j := 0, len(out)-1; i < j; i, j = i+1, j-1 {
		out[i], out[j] = out[j], out[i]
	}
	return out
}

// Solver wraps one incremental SMT solver process. The assertion stack mirrors a PC chain.
type Solver struct {
	kind    string // z3 | z3-new | cvc5
	cmd     *exec.Cmd
	in      *bufio.Writer
	inRaw   io.WriteCloser
	out     *bufio.Reader
	stack   []*PC
	known   map[*Term]bool
	decl    map[string]bool
	queries int64
	dur     time.Duration
	unknown int64
	errs    []string
	timeout int // ms
	dump    *os.File
	maxQ    time.Duration
}

func startSolver(kind string, timeoutMs int) *Solver {
	var cmd *exec.Cmd
	switch kind {
	case "z3", "":
		kind = "z3"
		cmd = exec.Command("z3", "-in")
	case "z3-new":
		cmd = exec.Command("z3-new", "-in")
	case "cvc5":
		cmd = exec.Command("cvc5", "--incremental", "--lang=smt2", "--produce-models", fmt.Sprintf("--tlimit-per=%d", timeoutMs))
	case "cvc5-int":
		cmd = exec.Command("cvc5", "--incremental", "--lang=smt2", "--produce-models", "--solve-bv-as-int=sum", fmt.Sprintf("--tlimit-per=%d", timeoutMs))
	default:
		panic("unknown solver " + kind)
	}
	in, _ := cmd.StdinPipe()
	out, _ := cmd.StdoutPipe()
	cmd.Stderr = cmd.Stdout
	if err := cmd.Start(); err != nil {
		panic(err)
	}
	s := &Solver{kind: kind, cmd: cmd, inRaw: in, in: bufio.NewWriterSize(in, 1<<16), out: bufio.NewReaderSize(out, 1<<16),
		known: map[*Term]bool{}, decl: map[string]bool{}, timeout: timeoutMs}
	fmt.Fprintf(s.in, "(set-option :global-declarations true)\n")
	if strings.HasPrefix(kind, "z3") {
		fmt.Fprintf(s.in, "(set-option :timeout %d)\n", timeoutMs)
	} else {
		fmt.Fprintf(s.in, "(set-logic ALL)\n")
	}
	if p := os.Getenv("SYMGO_DUMP"); p != "" {
		s.dump, _ = os.Create(fmt.Sprintf("%s.%d.smt2", p, cmd.Process.Pid))
	}
	return s
}

func (s *Solver) close() {
	s.inRaw.Close()
	s.cmd.Process.Kill()
	s.cmd.Wait()
	if s.dump != nil {
		s.dump.Close()
	}
}

func (s *Solver) w(str string) {
	s.in.WriteString(str)
	if s.dump != nil {
		s.dump.WriteString(str)
	}
}

func (s *Solver) declare(t *Term) {
	if s.known[t] {
		return
	}
	if len(s.known) > 300000 {
		s.known = map[*Term]bool{} // only a cache: declared names are tracked in s.decl
	}
	s.known[t] = true
	if t.Op == "var" {
		if !s.decl[t.Name] {
			s.decl[t.Name] = true
			if t.W == 0 {
				s.w(fmt.Sprintf("(declare-const %s Bool)\n", t.Name))
			} else {
				s.w(fmt.Sprintf("(declare-const %s (_ BitVec %d))\n", t.Name, t.W))
			}
		}
		return
	}
	for _, a := range t.Args {
		s.declare(a)
	}
}

// reset pops the whole assertion stack (declarations are kept).
func (s *Solver) reset() {
	if len(s.stack) > 0 {
		s.w(fmt.Sprintf("(pop %d)\n", len(s.stack)))
		s.stack = s.stack[:0]
	}
}

// sync makes the solver's assertion stack equal to pc.
func (s *Solver) sync(pc *PC) {
	d := 0
	if pc != nil {
		d = pc.depth
	}
	// find common prefix
	var chain []*PC
	q := pc
	for q != nil && q.depth > len(s.stack) {
		chain = append(chain, q)
		q = q.parent
	}
	for q != nil && s.stack[q.depth-1] != q {
		chain = append(chain, q)
		q = q.parent
	}
	k := 0
	if q != nil {
		k = q.depth
	}
	if len(s.stack) > k {
		s.w(fmt.Sprintf("(pop %d)\n", len(s.stack)-k))
		s.stack = s.stack[:k]
	}
	for i := len(chain) - 1; i >= 0; i-- {
		c := chain[i]
		s.declare(c.t)
		s.w("(push 1)\n(assert ")
		s.w(c.t.smt())
		s.w(")\n")
		s.stack = append(s.stack, c)
	}
	if len(s.stack) != d {
		panic("solver sync: depth mismatch")
	}
}

func (s *Solver) readLine() string {
	line, err := s.out.ReadString('\n')
	if err != nil {
		panic("solver died: " + err.Error() + " " + line)
	}
	return strings.TrimSpace(line)
}

// readSexp reads one balanced s-expression (possibly spanning lines).
func (s *Solver) readSexp() string {
	var sb strings.Builder
	depth := 0
	started := false
	for {
		line, err := s.out.ReadString('\n')
		if err != nil {
			panic("solver died while reading model")
		}
		sb.WriteString(line)
		for _, ch := range line {
			if ch == '(' {
				depth++
				started = true
			} else if ch == ')' {
				depth--
			}
		}
		if started && depth <= 0 {
			return sb.String()
		}
		if !started && strings.TrimSpace(line) != "" {
			return sb.String()
		}
	}
}

// check decides satisfiability of pc ∧ extra (extra may be nil).
// If want is non-empty and the result is sat, the model values of want are returned.
func (s *Solver) checkRaw(pc *PC, extra *Term, want []*Term) (res string, model []uint64) {
	t0 := time.Now()
	defer func() {
		d := time.Since(t0)
		s.dur += d
		if d > s.maxQ {
			s.maxQ = d
		}
		s.queries++
	}()
	s.sync(pc)
	if extra != nil {
		s.declare(extra)
		s.w("(push 1)\n(assert ")
		s.w(extra.smt())
		s.w(")\n")
	}
	for _, v := range want {
		s.declare(v)
	}
	s.w("(check-sat)\n")
	s.in.Flush()
	res = s.readLine()
	for strings.HasPrefix(res, "(error") || res == "" || strings.HasPrefix(res, "WARNING") {
		if strings.HasPrefix(res, "(error") {
			s.errs = append(s.errs, res)
			res = "error"
			break
		}
		res = s.readLine()
	}
	if res == "timeout" {
		res = "unknown"
	}
	if res == "sat" && len(want) > 0 {
		var sb strings.Builder
		sb.WriteString("(get-value (")
		for _, v := range want {
			sb.WriteString(v.smt())
			sb.WriteString(" ")
		}
		sb.WriteString("))\n")
		s.w(sb.String())
		s.in.Flush()
		txt := s.readSexp()
		model = parseValues(txt, len(want))
	}
	if extra != nil {
		s.w("(pop 1)\n")
	}
	if res != "sat" && res != "unsat" {
		s.unknown++
		if res != "unknown" && res != "error" {
			s.errs = append(s.errs, "unexpected solver answer: "+res)
			res = "error"
		}
	}
	return res, model
}

// parseValues extracts the values of a (get-value ...) answer in order.
func parseValues(txt string, n int) []uint64 {
	out := make([]uint64, 0, n)
	// tokens of interest: #x.., #b.., true, false, (_ bvN W)
	i := 0
	depth := 0
	for i < len(txt) {
		c := txt[i]
		switch {
		case c == '(':
			depth++
			if depth == 2 {
				// inside a (term value) pair: skip the term, which is balanced, then read the value
				i++
				// skip term
				i = skipSexp(txt, i)
				// read value
				for i < len(txt) && (txt[i] == ' ' || txt[i] == '\n') {
					i++
				}
				j := skipSexp(txt, i)
				out = append(out, parseValue(strings.TrimSpace(txt[i:j])))
				i = j
				continue
			}
		case c == ')':
			depth--
		}
		i++
	}
	if len(out) != n {
		panic(fmt.Sprintf("model parse: expected %d values, got %d in %q", n, len(out), txt))
	}
	return out
}

func skipSexp(txt string, i int) int {
	for i < len(txt) && (txt[i] == ' ' || txt[i] == '\n') {
		i++
	}
	if i >= len(txt) {
		return i
	}
	if txt[i] != '(' {
		for i < len(txt) && txt[i] != ' ' && txt[i] != ')' && txt[i] != '\n' {
			i++
		}
		return i
	}
	d := 0
	for i < len(txt) {
		if txt[i] == '(' {
			d++
		} else if txt[i] == ')' {
			d--
			if d == 0 {
				return i + 1
			}
		}
		i++
	}
	return i
}

func parseValue(v string) uint64 {
	switch {
	case v == "true":
		return 1
	case v == "false":
		return 0
	case strings.HasPrefix(v, "#x"):
		h := v[2:]
		if len(h) > 16 {
			h = h[len(h)-16:]
		}
		u, err := strconv.ParseUint(h, 16, 64)
		if err != nil {
			panic("model value " + v)
		}
		return u
	case strings.HasPrefix(v, "#b"):
		b := v[2:]
		if len(b) > 64 {
			b = b[len(b)-64:]
		}
		u, err := strconv.ParseUint(b, 2, 64)
		if err != nil {
			panic("model value " + v)
		}
		return u
	case strings.HasPrefix(v, "(_ bv"):
		f := strings.Fields(v[5:])
		u, err := strconv.ParseUint(f[0], 10, 64)
		if err != nil {
			panic("model value " + v)
		}
		return u
	}
	panic("cannot parse model value " + v)
}

// SolverMux routes queries: arithmetic-heavy ones (division/remainder by non-powers of two, symbolic
// multiplication) go to cvc5's integer encoding first, everything else to the main bit-blasting solver;
// an "unknown" from one back end is retried on the other.
type SolverMux struct {
	kind    string
	timeout int
	main    *Solver
	alt     *Solver
	known   map[*Term]bool
	queries int64
	dur     time.Duration
	maxQ    time.Duration
	errs    []string
	altUsed int64
	rescued int64
}

func newSolver(kind string, timeoutMs int) *SolverMux {
	return &SolverMux{kind: kind, timeout: timeoutMs}
}

func (m *SolverMux) get(alt bool) *Solver {
	if alt {
		if m.alt == nil {
			m.alt = startSolver("cvc5-int", m.timeout)
		}
		return m.alt
	}
	if m.main == nil {
		m.main = startSolver(m.kind, m.timeout)
	}
	return m.main
}

func (m *SolverMux) close() {
	if m.main != nil {
		m.main.close()
	}
	if m.alt != nil {
		m.alt.close()
	}
}

func (m *SolverMux) reset() {
	for _, s := range []*Solver{m.main, m.alt} {
		if s != nil {
			s.reset()
			s.known = map[*Term]bool{}
		}
	}
}

func (m *SolverMux) check(pc *PC, extra *Term, want []*Term) (string, []uint64) {
	t0 := time.Now()
	hard := (pc != nil && pc.hard) || (extra != nil && extra.hard)
	if m.kind == "cvc5-int" {
		hard = false
	}
	first := m.get(hard)
	res, model := first.checkRaw(pc, extra, want)
	if hard {
		m.altUsed++
	}
	if res != "sat" && res != "unsat" {
		second := m.get(!hard)
		r2, m2 := second.checkRaw(pc, extra, want)
		if r2 == "sat" || r2 == "unsat" {
			res, model = r2, m2
			m.rescued++
		}
	}
	for _, s := range []*Solver{m.main, m.alt} {
		if s != nil && len(s.errs) > 0 {
			m.errs = append(m.errs, s.errs...)
			s.errs = nil
		}
	}
	d := time.Since(t0)
	m.queries++
	m.dur += d
	if d > m.maxQ {
		m.maxQ = d
	}
	return res, model
}
