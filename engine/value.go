package main

import (
	"fmt"
	"go/types"
	"strings"

	"golang.org/x/tools/go/ssa"
)

// ---- values ----

type Value interface{}

// Int is an integer of width W; concrete (T == nil, value C truncated to W bits) or symbolic (T != nil).
type Int struct {
	W      uint8
	Signed bool
	C      uint64
	T      *Term
}

type Bool struct {
	C bool
	T *Term
}

type Float struct{ F float64 }
type Complex struct{ C complex128 }

// Str is a string. When B != nil the string is symbolic: B holds one Int (W=8) per byte.
type Str struct {
	S string
	B []Value
}

type Ptr struct {
	Obj  int // 0 = nil
	Path []int
}

type Slice struct {
	Obj           int // 0 = nil slice
	Path          []int
	Off, Len, Cap int
}

type Struct []Value
type Array []Value
type Tuple []Value

type Iface struct {
	T types.Type // nil => nil interface
	V Value
}

type Func struct {
	Fn      *ssa.Function
	Env     []Value
	Builtin *ssa.Builtin
	Recv    Value // bound method value receiver
	Has     bool
	Cut     *types.Signature // method of a dummy value of a cut package: returns zero results
	// method value bound on an interface method resolved lazily
}

type Map struct{ Obj int }
type Chan struct{ Obj int }

type MapIter struct {
	Obj   int
	Pos   int
	IsStr bool
	S     Str
	Rot   bool // rotated iteration starting at Start (nondeterministic map order)
	Start int
}

// Native carries an engine-side Go value through interpreted code (opaque to it).
type Native struct{ V any }

// ---- objects ----

type Object struct {
	Epoch int64
	Agg   bool // Elems are fields/elements of an aggregate; else a single cell
	Elems []Value
	M     *MapData
	Ch    *ChanData
	Typ   types.Type
}

type MapData struct {
	Keys  []Value
	Vals  []Value
	Index map[string]int
	Live  int
	// SymKeys is set when some key contains symbolic parts (lookups then compare structurally)
	SymKeys bool
	// NondetOrder: iteration starts at a symbolic position (declared by the harness)
	NondetOrder bool
}

type ChanData struct {
	Buf    []Value
	Cap    int
	Closed bool
}

func (o *Object) clone(epoch int64) *Object {
	n := &Object{Epoch: epoch, Agg: o.Agg, Typ: o.Typ}
	n.Elems = append([]Value(nil), o.Elems...)
	if o.M != nil {
		m := &MapData{Keys: append([]Value(nil), o.M.Keys...), Vals: append([]Value(nil), o.M.Vals...),
			Index: make(map[string]int, len(o.M.Index)), Live: o.M.Live, SymKeys: o.M.SymKeys, NondetOrder: o.M.NondetOrder}
		for k, v := range o.M.Index {
			m.Index[k] = v
		}
		n.M = m
	}
	if o.Ch != nil {
		c := *o.Ch
		c.Buf = append([]Value(nil), o.Ch.Buf...)
		n.Ch = &c
	}
	return n
}

// ---- helpers ----

func mkInt(w uint8, signed bool, c uint64) Int { return Int{W: w, Signed: signed, C: c & mask(w)} }
func mkI64(c int64) Int                        { return Int{W: 64, Signed: true, C: uint64(c)} }
func mkByte(c byte) Int                        { return Int{W: 8, C: uint64(c)} }

func (i Int) sval() int64 {
	if !i.Signed {
		return int64(i.C)
	}
	return sx(i.C, i.W)
}

func (i Int) term() *Term {
	if i.T != nil {
		return i.T
	}
	return bvConst(i.W, i.C)
}

func (b Bool) term() *Term {
	if b.T != nil {
		return b.T
	}
	return boolConst(b.C)
}

func mkBoolT(t *Term) Bool {
	switch t.Op {
	case "true":
		return Bool{C: true}
	case "false":
		return Bool{}
	}
	return Bool{T: t}
}

func mkIntT(w uint8, signed bool, t *Term) Int {
	if t.Op == "const" {
		return mkInt(w, signed, t.C)
	}
	if t.W != w {
		panic(fmt.Sprintf("mkIntT width %d vs %d", t.W, w))
	}
	return Int{W: w, Signed: signed, T: t}
}

func (s Str) length() int {
	if s.B != nil {
		return len(s.B)
	}
	return len(s.S)
}

func (s Str) at(i int) Int {
	if s.B != nil {
		return s.B[i].(Int)
	}
	return mkByte(s.S[i])
}

func (s Str) isSym() bool { return s.B != nil }

// normStr converts a byte-value list to a Str, concrete when all bytes are.
func normStr(b []Value) Str {
	conc := true
	for _, v := range b {
		if v.(Int).T != nil {
			conc = false
			break
		}
	}
	if conc {
		var sb strings.Builder
		for _, v := range b {
			sb.WriteByte(byte(v.(Int).C))
		}
		return Str{S: sb.String()}
	}
	if b == nil {
		b = []Value{}
	}
	return Str{B: b}
}

func (s Str) bytes() []Value {
	if s.B != nil {
		return s.B
	}
	out := make([]Value, len(s.S))
	for i := 0; i < len(s.S); i++ {
		out[i] = mkByte(s.S[i])
	}
	return out
}

func intInfo(t types.Type) (w uint8, signed bool, ok bool) {
	b, isb := t.Underlying().(*types.Basic)
	if !isb {
		return 0, false, false
	}
	switch b.Kind() {
	case types.Int, types.Int64, types.UntypedInt:
		return 64, true, true
	case types.Int8:
		return 8, true, true
	case types.Int16:
		return 16, true, true
	case types.Int32, types.UntypedRune:
		return 32, true, true
	case types.Uint, types.Uint64, types.Uintptr:
		return 64, false, true
	case types.Uint8:
		return 8, false, true
	case types.Uint16:
		return 16, false, true
	case types.Uint32:
		return 32, false, true
	}
	return 0, false, false
}

func zero(t types.Type) Value {
	switch u := t.Underlying().(type) {
	case *types.Basic:
		if w, s, ok := intInfo(t); ok {
			return mkInt(w, s, 0)
		}
		switch u.Kind() {
		case types.Bool, types.UntypedBool:
			return Bool{}
		case types.String, types.UntypedString:
			return Str{}
		case types.Float32, types.Float64, types.UntypedFloat:
			return Float{}
		case types.Complex64, types.Complex128:
			return Complex{}
		case types.UnsafePointer:
			return Ptr{}
		case types.UntypedNil:
			return nil
		}
		panic("zero: basic " + u.String())
	case *types.Pointer:
		return Ptr{}
	case *types.Slice:
		return Slice{}
	case *types.Struct:
		s := make(Struct, u.NumFields())
		for i := range s {
			s[i] = zero(u.Field(i).Type())
		}
		return s
	case *types.Array:
		a := make(Array, u.Len())
		if u.Len() > 0 {
			z := zero(u.Elem())
			for i := range a {
				a[i] = z // nested values are immutable and may be shared
			}
		}
		return a
	case *types.Interface:
		return Iface{}
	case *types.Signature:
		return Func{}
	case *types.Map:
		return Map{}
	case *types.Chan:
		return Chan{}
	case *types.Tuple:
		tp := make(Tuple, u.Len())
		for i := range tp {
			tp[i] = zero(u.At(i).Type())
		}
		return tp
	case *types.TypeParam:
		panic("zero of type parameter " + t.String())
	}
	panic(fmt.Sprintf("zero: %T %v", t.Underlying(), t))
}

func show(v Value) string {
	switch v := v.(type) {
	case nil:
		return "<nil>"
	case Int:
		if v.T != nil {
			return "sym:" + short(v.T.smt())
		}
		if v.Signed {
			return fmt.Sprint(v.sval())
		}
		return fmt.Sprint(v.C)
	case Bool:
		if v.T != nil {
			return "sym:" + short(v.T.smt())
		}
		return fmt.Sprint(v.C)
	case Str:
		if v.B != nil {
			return fmt.Sprintf("symstr[%d]", len(v.B))
		}
		return fmt.Sprintf("%q", v.S)
	case Struct:
		var sb strings.Builder
		sb.WriteString("{")
		for i, f := range v {
			if i > 0 {
				sb.WriteString(" ")
			}
			sb.WriteString(show(f))
		}
		sb.WriteString("}")
		return sb.String()
	case Array:
		if len(v) <= 40 {
			var sb strings.Builder
			sb.WriteString("[")
			for i, f := range v {
				if i > 0 {
					sb.WriteString(" ")
				}
				sb.WriteString(show(f))
			}
			sb.WriteString("]")
			return sb.String()
		}
		return fmt.Sprintf("[%d]...", len(v))
	case Tuple:
		return "tuple" + show(Struct(v))
	case Iface:
		if v.T == nil {
			return "nil"
		}
		return "iface(" + v.T.String() + ":" + show(v.V) + ")"
	case Ptr:
		if v.Obj == 0 {
			return "nilptr"
		}
		return fmt.Sprintf("&o%d%v", v.Obj, v.Path)
	case Slice:
		return fmt.Sprintf("slice(o%d+%d len %d cap %d)", v.Obj, v.Off, v.Len, v.Cap)
	case Func:
		if v.Fn != nil {
			return "func " + v.Fn.String()
		}
		return "func?"
	}
	return fmt.Sprintf("%T", v)
}

func short(s string) string {
	if len(s) > 60 {
		return s[:57] + "..."
	}
	return s
}
