package main

import (
	"fmt"
	"go/token"
	"go/types"
	"strings"

	"golang.org/x/tools/go/ssa"
)

func (st *State) pushFrame(fn *ssa.Function, args []Value, env []Value, resultTo ssa.Value) *Frame {
	if fn.Blocks == nil {
		unsupported("no body for %s", fn.String())
	}
	fi := st.in.info(fn)
	fr := &Frame{fn: fn, info: fi, block: fn.Blocks[0], regs: make([]Value, fi.nregs), env: env, resultTo: resultTo}
	if len(args) != len(fn.Params) {
		unsupported("call of %s with %d args, want %d", fn, len(args), len(fn.Params))
	}
	for i, p := range fn.Params {
		fr.regs[fi.num[p]] = args[i]
	}
	g := st.g()
	if len(g.frames) > st.in.cfg.MaxDepth {
		unsupported("call depth exceeded in %s", fn)
	}
	g.frames = append(g.frames, fr)
	if st.w != nil {
		st.w.noteFn(fn)
	}
	return fr
}

// run executes the state until it finishes (status != stRunning).
func (st *State) run() {
	for st.status == stRunning {
		st.step()
	}
}

type blockSignal struct{ why string }
type forkAbort struct{} // the path became infeasible in the middle of an instruction

func (st *State) finish(status int, msg string) {
	if st.status == stRunning {
		st.status = status
		st.msg = msg
	}
}

func (st *State) step() {
	g := st.g()
	if g.status == gDone || len(g.frames) == 0 {
		g.status = gDone
		st.schedule()
		return
	}
	fr := g.frames[len(g.frames)-1]
	defer func() {
		if r := recover(); r != nil {
			switch e := r.(type) {
			case goPanic:
				st.forced, st.fpos = nil, 0
				st.startPanic(st.mkRuntimeError(e.msg))
			case blockSignal:
				st.forced, st.fpos = nil, 0
				st.block(e.why)
			case forkAbort:
				st.finish(stInfeasible, "")
			case engineErr:
				st.finish(stEngineErr, e.msg+" @ "+st.where())
			default:
				st.finish(stEngineErr, fmt.Sprintf("internal: %v @ %s", r, st.where()))
				if st.in.cfg.Debug {
					panic(r)
				}
			}
		}
	}()
	if fr.panicking {
		st.unwind()
		return
	}
	st.steps++
	if st.steps > st.in.cfg.MaxSteps {
		st.finish(stStepLimit, "step limit exceeded @ "+st.where())
		return
	}
	st.decs = st.decs[:0]
	st.fpos = 0
	st.ndIdx = 0
	if !st.reexec {
		st.serial++
	}
	instr := fr.block.Instrs[fr.pc]
	st.exec(fr, instr)
	if st.fpos < len(st.forced) {
		unsupported("forced decisions not consumed on re-execution")
	}
	st.forced = nil
	st.reexec = false
}

func (st *State) where() string {
	g := st.g()
	if len(g.frames) == 0 {
		return "?"
	}
	var parts []string
	for i := len(g.frames) - 1; i >= 0 && len(parts) < 6; i-- {
		fr := g.frames[i]
		pos := ""
		if fr.pc < len(fr.block.Instrs) {
			if p := fr.block.Instrs[fr.pc].Pos(); p.IsValid() {
				ps := st.in.prog.Fset.Position(p)
				pos = fmt.Sprintf(":%d", ps.Line)
			}
		}
		parts = append(parts, fr.fn.String()+pos)
	}
	return strings.Join(parts, " < ")
}

func (st *State) mkRuntimeError(msg string) Iface {
	return Iface{T: st.in.runtimeErrT, V: Str{S: "runtime error: " + msg}}
}

func (st *State) startPanic(v Iface) {
	g := st.g()
	st.panicWhere = st.where()
	g.panicVal = &v
	if len(g.frames) == 0 {
		st.uncaught = &v
		st.finish(stPanic, "panic: "+st.panicString(v))
		return
	}
	st.top().panicking = true
}

func (st *State) panicString(v Iface) string {
	if v.T == nil {
		return "nil"
	}
	switch x := v.V.(type) {
	case Str:
		if x.B == nil {
			return x.S
		}
	case Ptr:
		// errors.errorString and fmt.wrapError keep the message in field 0
		if x.Obj != 0 {
			o := st.robj(x.Obj)
			if len(o.Elems) > 0 {
				if s, ok := o.Elems[0].(Str); ok && s.B == nil {
					return v.T.String() + ": " + s.S
				}
			}
		}
	}
	return v.T.String() + " " + show(v.V)
}

// unwind is called when the top frame is panicking.
func (st *State) unwind() {
	g := st.g()
	fr := st.top()
	if len(fr.defers) > 0 {
		d := fr.defers[len(fr.defers)-1]
		fr.defers = fr.defers[:len(fr.defers)-1]
		st.invoke(fr, d.fn, d.args, nil, true)
		return
	}
	if g.panicVal == nil || fr.recovered {
		fr.panicking = false
		fr.recovered = false
		if fr.fn.Recover != nil {
			fr.prev = fr.block
			fr.block = fr.fn.Recover
			fr.pc = 0
			return
		}
		st.doReturn(fr, zeroResults(fr.fn))
		return
	}
	// propagate
	wasSync := fr.syncMarker
	g.frames = g.frames[:len(g.frames)-1]
	if wasSync {
		unsupported("panic escaping a synchronous engine call")
	}
	if len(g.frames) == 0 {
		st.uncaught = g.panicVal
		st.finish(stPanic, "panic: "+st.panicString(*g.panicVal)+" (goroutine "+fmt.Sprint(g.id)+") raised at "+st.panicWhere)
		return
	}
	st.top().panicking = true
}

func zeroResults(fn *ssa.Function) Value {
	res := fn.Signature.Results()
	switch res.Len() {
	case 0:
		return nil
	case 1:
		return zero(res.At(0).Type())
	}
	return zero(res)
}

func (st *State) doReturn(fr *Frame, res Value) {
	g := st.g()
	g.frames = g.frames[:len(g.frames)-1]
	if fr.syncMarker {
		st.retval = res
		return
	}
	if len(g.frames) == 0 {
		if g.id == 0 {
			st.retval = res
			st.finish(stOK, "")
			return
		}
		g.status = gDone
		st.wake++
		st.schedule()
		return
	}
	caller := st.top()
	if fr.isDeferredCall {
		return // the caller continues RunDefers or unwinding
	}
	if fr.resultTo != nil {
		st.set(caller, fr.resultTo, res)
	}
	caller.pc++
	// a TryRun closure that completed
	if n := len(st.tryStack); n > 0 {
		tr := st.tryStack[n-1]
		if tr.gid == g.id && len(g.frames) == tr.depth {
			st.tryStack = st.tryStack[:n-1]
			st.set(caller, tr.res, Bool{C: true})
		}
	}
}

// ---- scheduling ----

func (st *State) block(why string) {
	g := st.g()
	if n := len(st.tryStack); n > 0 {
		// inside verifTryRun: roll back to the snapshot and report false
		tr := st.tryStack[n-1]
		snap := tr.snap.fork()
		pcNow, nd, nc := st.pc, st.nondets, st.nameCtr
		keepReach, keepTrace := st.reach, st.trace
		w := st.w
		steps := st.steps
		*st = *snap
		st.w = w
		st.steps = steps
		// keep what was learnt on the path (constraints and nondet variables are monotone)
		st.pc, st.nondets, st.nameCtr = pcNow, nd, nc
		st.reach, st.trace = keepReach, keepTrace
		fr := st.top()
		st.set(fr, tr.res, Bool{C: false})
		fr.pc++
		return
	}
	g.status = gBlocked
	g.wakeSeen = st.wake
	g.why = why
	st.schedule()
}

// schedule picks the next goroutine to run; called when the current one blocked, yielded or ended.
func (st *State) schedule() {
	n := len(st.gs)
	// prefer ordinary runnable goroutines, then blocked ones that may have been woken, then yielders
	for pass := 0; pass < 3; pass++ {
		for k := 1; k <= n; k++ {
			i := (st.cur + k) % n
			g := st.gs[i]
			switch {
			case pass == 0 && g.status == gRunnable:
			case pass == 1 && g.status == gBlocked && g.wakeSeen != st.wake:
				g.status = gRunnable
			case pass == 2 && g.status == gYield:
				g.status = gRunnable
			default:
				continue
			}
			st.cur = i
			return
		}
	}
	// nothing can run
	main := st.gs[0]
	if main.status == gDone {
		st.finish(stOK, "")
		return
	}
	var why []string
	for _, g := range st.gs {
		if g.status == gBlocked {
			why = append(why, fmt.Sprintf("g%d: %s", g.id, g.why))
		}
	}
	st.cur = 0
	st.finish(stDeadlock, "all goroutines blocked: "+strings.Join(why, "; "))
}

func (st *State) spawn(f Func, args []Value) {
	g := &Goroutine{id: len(st.gs), status: gRunnable}
	st.gs = append(st.gs, g)
	if f.Builtin != nil {
		unsupported("go builtin")
	}
	if f.Fn == nil {
		panic(goPanic{"go of nil func"})
	}
	// run through the normal dispatcher on the new goroutine's (empty) stack
	cur := st.cur
	st.cur = g.id
	dummy := &Frame{}
	st.invoke(dummy, f, args, nil, false)
	if len(g.frames) == 0 {
		g.status = gDone
	}
	st.cur = cur
	st.wake++
}

// ---- calls ----

// invoke calls f with args; the result is delivered to resultTo in caller fr (unless deferred).
func (st *State) invoke(fr *Frame, f Func, args []Value, resultTo ssa.Value, isDeferred bool) {
	if f.Has {
		args = append([]Value{f.Recv}, args...)
	}
	deliver := func(res Value) {
		if !isDeferred {
			if resultTo != nil {
				st.set(fr, resultTo, res)
			}
			fr.pc++
		}
	}
	if f.Builtin != nil {
		deliver(st.builtin(fr, f.Builtin.Name(), args))
		return
	}
	if f.Cut != nil {
		deliver(st.cutResultSig(f.Cut))
		return
	}
	if f.Fn == nil {
		panic(goPanic{"invalid memory address or nil pointer dereference (call of nil func)"})
	}
	fn := f.Fn
	if fn.Name() == "init" && fn.Signature.Recv() == nil && fn.Pkg != nil && fn.Synthetic != "" {
		// package initialiser: run only for interpreted packages
		if !st.in.initAllowed(fn.Pkg.Pkg.Path()) {
			deliver(nil)
			return
		}
	}
	if stub, ok := st.in.stubs[fn]; ok && !st.inStub(stub) {
		nf := st.pushFrame(stub, args, nil, resultTo)
		nf.isDeferredCall = isDeferred
		return
	}
	if h := st.in.intrinFor(fn); h != nil {
		res, handled := h(st, fr, args, resultTo)
		switch handled {
		case hDone:
			deliver(res)
			return
		case hTaken: // the intrinsic arranged control flow itself (pushed a frame, blocked, ...)
			if isDeferred {
				if n := len(st.g().frames); n > 0 && st.top() != fr {
					st.top().isDeferredCall = true
				}
			}
			return
		}
	}
	if st.in.isCut(fn) {
		deliver(st.cutResult(fn))
		return
	}
	if fn.Blocks == nil {
		unsupported("call of external function %s", fn.String())
	}
	nf := st.pushFrame(fn, args, f.Env, resultTo)
	nf.isDeferredCall = isDeferred
}

// inStub reports whether the call is made directly from the stub's own body (lets a stub call the
// real function it replaces).
func (st *State) inStub(stub *ssa.Function) bool {
	g := st.g()
	if n := len(g.frames); n > 0 {
		return g.frames[n-1].fn == stub
	}
	return false
}

const (
	hNo = iota
	hDone
	hTaken
)

// cutResult gives zero results for functions of cut packages; constructors returning a pointer
// get a fresh zero object so that method calls on the result do not dereference nil.
func (st *State) cutResult(fn *ssa.Function) Value { return st.cutResultSig(fn.Signature) }

func (st *State) cutResultSig(sig *types.Signature) Value {
	res := sig.Results()
	mk := func(t types.Type) Value {
		if p, ok := t.Underlying().(*types.Pointer); ok {
			if _, isStruct := p.Elem().Underlying().(*types.Struct); isStruct {
				return Ptr{Obj: st.alloc(p.Elem())}
			}
		}
		if _, ok := t.Underlying().(*types.Interface); ok {
			// return a typed dummy so that method calls on the result are cut too
			if n, ok := t.(*types.Named); ok && n.Obj().Pkg() != nil && st.in.cutPath(n.Obj().Pkg().Path()) {
				return Iface{T: n, V: Struct{}}
			}
		}
		return zero(t)
	}
	switch res.Len() {
	case 0:
		return nil
	case 1:
		return mk(res.At(0).Type())
	}
	tp := make(Tuple, res.Len())
	for i := range tp {
		tp[i] = mk(res.At(i).Type())
	}
	return tp
}

func (in *Interp) isCut(fn *ssa.Function) bool {
	if in.cutFns[fn.String()] {
		return true
	}
	p := fn.Pkg
	if p == nil && fn.Origin() != nil {
		p = fn.Origin().Pkg
	}
	if p == nil {
		if recv := fn.Signature.Recv(); recv != nil {
			if n, ok := derefNamed(recv.Type()); ok && n.Obj().Pkg() != nil {
				return in.cutPath(n.Obj().Pkg().Path())
			}
		}
		return false
	}
	return in.cutPath(p.Pkg.Path())
}

func derefNamed(t types.Type) (*types.Named, bool) {
	if p, ok := t.(*types.Pointer); ok {
		t = p.Elem()
	}
	n, ok := t.(*types.Named)
	return n, ok
}

func (in *Interp) cutPath(path string) bool {
	for _, c := range in.cutPkgs {
		if path == c || strings.HasPrefix(path, c+"/") {
			return true
		}
	}
	return false
}

func (st *State) jump(fr *Frame, k int) {
	to := fr.block.Succs[k]
	if to.Index <= fr.block.Index { // back edge: unwinding bound
		if fr.visits == nil {
			fr.visits = make([]int32, len(fr.fn.Blocks))
		}
		fr.visits[to.Index]++
		if int(fr.visits[to.Index]) > st.in.unwindFor(fr.fn) {
			st.finish(stUnwind, fmt.Sprintf("unwinding bound %d exceeded at loop in %s", st.in.unwindFor(fr.fn), st.where()))
			return
		}
	}
	fr.prev, fr.block, fr.pc = fr.block, to, 0
}

func (st *State) exec(fr *Frame, instr ssa.Instruction) {
	switch i := instr.(type) {
	case *ssa.DebugRef:
		fr.pc++
	case *ssa.Alloc:
		t := i.Type().(*types.Pointer).Elem()
		st.set(fr, i, Ptr{Obj: st.alloc(t)})
		fr.pc++
	case *ssa.Store:
		st.store(st.get(fr, i.Addr).(Ptr), st.get(fr, i.Val))
		fr.pc++
	case *ssa.UnOp:
		v := st.unop(fr, i)
		st.set(fr, i, v)
		fr.pc++
	case *ssa.BinOp:
		st.set(fr, i, st.binop(i.Op, st.get(fr, i.X), st.get(fr, i.Y), i.X.Type()))
		fr.pc++
	case *ssa.FieldAddr:
		p := st.get(fr, i.X).(Ptr)
		if p.Obj == 0 {
			panic(goPanic{"invalid memory address or nil pointer dereference"})
		}
		st.set(fr, i, Ptr{Obj: p.Obj, Path: extend(p.Path, i.Field)})
		fr.pc++
	case *ssa.Field:
		st.set(fr, i, st.get(fr, i.X).(Struct)[i.Field])
		fr.pc++
	case *ssa.IndexAddr:
		switch x := st.get(fr, i.X).(type) {
		case Ptr: // *array
			if x.Obj == 0 {
				panic(goPanic{"invalid memory address or nil pointer dereference"})
			}
			n := int(i.X.Type().Underlying().(*types.Pointer).Elem().Underlying().(*types.Array).Len())
			idx := st.concreteIndex(st.get(fr, i.Index).(Int), n)
			st.set(fr, i, Ptr{Obj: x.Obj, Path: extend(x.Path, idx)})
		case Slice:
			idx := st.concreteIndex(st.get(fr, i.Index).(Int), x.Len)
			st.set(fr, i, st.sliceElemPtr(x, idx))
		default:
			panic(fmt.Sprintf("IndexAddr on %T", x))
		}
		fr.pc++
	case *ssa.Index:
		switch x := st.get(fr, i.X).(type) {
		case Array:
			st.set(fr, i, st.symIndexRead([]Value(x), st.get(fr, i.Index).(Int)))
		case Str:
			st.set(fr, i, st.symIndexRead(x.bytes(), st.get(fr, i.Index).(Int)))
		default:
			panic(fmt.Sprintf("Index on %T", x))
		}
		fr.pc++
	case *ssa.Slice:
		st.set(fr, i, st.sliceOp(fr, i))
		fr.pc++
	case *ssa.MakeSlice:
		n := st.concrete(st.get(fr, i.Len).(Int))
		c := st.concrete(st.get(fr, i.Cap).(Int))
		if n < 0 || c < n || c > 1<<26 {
			panic(goPanic{"makeslice: len out of range"})
		}
		et := i.Type().Underlying().(*types.Slice).Elem()
		st.set(fr, i, st.makeSlice(et, n, c))
		fr.pc++
	case *ssa.MakeMap:
		id := st.newObj(&Object{M: &MapData{Index: map[string]int{}}, Typ: i.Type()})
		st.set(fr, i, Map{Obj: id})
		fr.pc++
	case *ssa.MakeChan:
		c := st.concrete(st.get(fr, i.Size).(Int))
		id := st.newObj(&Object{Ch: &ChanData{Cap: c}, Typ: i.Type()})
		st.set(fr, i, Chan{Obj: id})
		fr.pc++
	case *ssa.MakeClosure:
		env := make([]Value, len(i.Bindings))
		for k, b := range i.Bindings {
			env[k] = st.get(fr, b)
		}
		st.set(fr, i, Func{Fn: i.Fn.(*ssa.Function), Env: env})
		fr.pc++
	case *ssa.MakeInterface:
		st.set(fr, i, Iface{T: i.X.Type(), V: st.get(fr, i.X)})
		fr.pc++
	case *ssa.ChangeInterface:
		st.set(fr, i, st.get(fr, i.X))
		fr.pc++
	case *ssa.ChangeType:
		st.set(fr, i, st.get(fr, i.X))
		fr.pc++
	case *ssa.Convert:
		st.set(fr, i, st.convert(st.get(fr, i.X), i.X.Type(), i.Type()))
		fr.pc++
	case *ssa.MultiConvert:
		st.set(fr, i, st.convert(st.get(fr, i.X), i.X.Type(), i.Type()))
		fr.pc++
	case *ssa.SliceToArrayPointer:
		s := st.get(fr, i.X).(Slice)
		n := int(i.Type().Underlying().(*types.Pointer).Elem().Underlying().(*types.Array).Len())
		if s.Len < n {
			panic(goPanic{"cannot convert slice to array pointer: length too short"})
		}
		if s.Obj == 0 {
			st.set(fr, i, Ptr{})
		} else {
			// a pointer to the first n elements: represented by copying into a fresh array object is unsound;
			// support only the full-object case
			if s.Off == 0 && len(s.Path) == 0 && len(st.robj(s.Obj).Elems) == n {
				st.set(fr, i, Ptr{Obj: s.Obj})
			} else {
				unsupported("SliceToArrayPointer of a sub-slice")
			}
		}
		fr.pc++
	case *ssa.TypeAssert:
		st.set(fr, i, st.typeAssert(i, st.get(fr, i.X).(Iface)))
		fr.pc++
	case *ssa.Extract:
		st.set(fr, i, st.get(fr, i.Tuple).(Tuple)[i.Index])
		fr.pc++
	case *ssa.Phi:
		// all phis of a block read their inputs simultaneously
		blk := fr.block
		k := -1
		for idx, p := range blk.Preds {
			if p == fr.prev {
				k = idx
				break
			}
		}
		if k < 0 {
			panic("phi: predecessor not found")
		}
		var vals []Value
		var phis []*ssa.Phi
		for j := fr.pc; j < len(blk.Instrs); j++ {
			ph, ok := blk.Instrs[j].(*ssa.Phi)
			if !ok {
				break
			}
			phis = append(phis, ph)
			vals = append(vals, st.get(fr, ph.Edges[k]))
		}
		for j, ph := range phis {
			st.set(fr, ph, vals[j])
		}
		fr.pc += len(phis)
	case *ssa.Jump:
		st.jump(fr, 0)
	case *ssa.If:
		c := st.get(fr, i.Cond).(Bool)
		k := 1
		if c.T != nil {
			st.symBranches++
			if st.decide(c.T) {
				k = 0
			}
		} else if c.C {
			k = 0
		}
		st.jump(fr, k)
	case *ssa.Return:
		var res Value
		switch len(i.Results) {
		case 0:
		case 1:
			res = st.get(fr, i.Results[0])
		default:
			t := make(Tuple, len(i.Results))
			for k, r := range i.Results {
				t[k] = st.get(fr, r)
			}
			res = t
		}
		st.doReturn(fr, res)
	case *ssa.RunDefers:
		if len(fr.defers) > 0 {
			d := fr.defers[len(fr.defers)-1]
			fr.defers = fr.defers[:len(fr.defers)-1]
			st.invoke(fr, d.fn, d.args, nil, true)
			return
		}
		fr.pc++
	case *ssa.Defer:
		f, args := st.prepareCall(fr, &i.Call)
		fr.defers = append(fr.defers, deferred{fn: f, args: args})
		fr.pc++
	case *ssa.Go:
		f, args := st.prepareCall(fr, &i.Call)
		st.spawn(f, args)
		fr.pc++
	case *ssa.Panic:
		st.startPanic(st.get(fr, i.X).(Iface))
	case *ssa.Call:
		f, args := st.prepareCall(fr, &i.Call)
		st.invoke(fr, f, args, i, false)
	case *ssa.Lookup:
		st.set(fr, i, st.lookup(fr, i))
		fr.pc++
	case *ssa.MapUpdate:
		m := st.get(fr, i.Map).(Map)
		if m.Obj == 0 {
			panic(goPanic{"assignment to entry in nil map"})
		}
		st.mapSet(m, st.get(fr, i.Key), st.get(fr, i.Value))
		fr.pc++
	case *ssa.Range:
		switch x := st.get(fr, i.X).(type) {
		case Map:
			st.set(fr, i, st.mapRange(x))
		case Str:
			st.set(fr, i, MapIter{IsStr: true, S: x})
		}
		fr.pc++
	case *ssa.Next:
		st.set(fr, i, st.next(fr, i))
		fr.pc++
	case *ssa.Send:
		st.chanSend(st.get(fr, i.Chan).(Chan), st.get(fr, i.X))
		fr.pc++
	case *ssa.Select:
		st.selectOp(fr, i)
	default:
		unsupported("instruction %T: %v", instr, instr)
	}
}

func (st *State) prepareCall(fr *Frame, c *ssa.CallCommon) (Func, []Value) {
	args := make([]Value, 0, len(c.Args)+1)
	var f Func
	if c.IsInvoke() {
		recv := st.get(fr, c.Value).(Iface)
		if recv.T == nil {
			panic(goPanic{"invalid memory address or nil pointer dereference (nil interface method call " + c.Method.Name() + ")"})
		}
		if types.IsInterface(recv.T) {
			// dummy value produced by a cut package: its methods are cut as well
			f = Func{Cut: c.Method.Type().(*types.Signature)}
		} else {
			f = Func{Fn: st.in.lookupMethod(recv.T, c.Method)}
			args = append(args, recv.V)
		}
	} else {
		f = st.get(fr, c.Value).(Func)
	}
	for _, a := range c.Args {
		args = append(args, st.get(fr, a))
	}
	return f, args
}

func (in *Interp) lookupMethod(t types.Type, m *types.Func) *ssa.Function {
	methMu.Lock()
	defer methMu.Unlock()
	ms := in.prog.MethodSets.MethodSet(t)
	sel := ms.Lookup(m.Pkg(), m.Name())
	if sel == nil {
		unsupported("method %s not found on %v", m.Name(), t)
	}
	fn := in.prog.MethodValue(sel)
	if fn == nil {
		unsupported("no method value for %s on %v", m.Name(), t)
	}
	return fn
}

func (st *State) makeSlice(et types.Type, n, c int) Slice {
	elems := make([]Value, c)
	z := zero(et)
	for k := range elems {
		elems[k] = z
	}
	id := st.newObj(&Object{Agg: true, Elems: elems, Typ: types.NewArray(et, int64(c))})
	return Slice{Obj: id, Len: n, Cap: c}
}

func (st *State) sliceOp(fr *Frame, i *ssa.Slice) Value {
	x := st.get(fr, i.X)
	geti := func(v ssa.Value, def int) int {
		if v == nil {
			return def
		}
		return st.concrete(st.get(fr, v).(Int))
	}
	switch x := x.(type) {
	case Str:
		n := x.length()
		lo, hi := geti(i.Low, 0), geti(i.High, n)
		if lo < 0 || hi > n || lo > hi {
			panic(goPanic{fmt.Sprintf("slice bounds out of range [%d:%d] with length %d", lo, hi, n)})
		}
		if x.B != nil {
			return normStr(x.B[lo:hi:hi])
		}
		return Str{S: x.S[lo:hi]}
	case Slice:
		lo := geti(i.Low, 0)
		hi := geti(i.High, x.Len)
		mx := geti(i.Max, x.Cap)
		if lo < 0 || hi > x.Cap || lo > hi || mx > x.Cap || hi > mx {
			panic(goPanic{fmt.Sprintf("slice bounds out of range [%d:%d:%d] with capacity %d", lo, hi, mx, x.Cap)})
		}
		if x.Obj == 0 {
			return Slice{}
		}
		return Slice{Obj: x.Obj, Path: x.Path, Off: x.Off + lo, Len: hi - lo, Cap: mx - lo}
	case Ptr: // *array
		n := int(i.X.Type().Underlying().(*types.Pointer).Elem().Underlying().(*types.Array).Len())
		if x.Obj == 0 {
			panic(goPanic{"invalid memory address or nil pointer dereference"})
		}
		lo, hi, mx := geti(i.Low, 0), geti(i.High, n), geti(i.Max, n)
		if lo < 0 || hi > n || lo > hi || mx > n || hi > mx {
			panic(goPanic{"slice bounds out of range"})
		}
		return Slice{Obj: x.Obj, Path: x.Path, Off: lo, Len: hi - lo, Cap: mx - lo}
	}
	panic(fmt.Sprintf("Slice on %T", x))
}

func (st *State) unop(fr *Frame, i *ssa.UnOp) Value {
	x := st.get(fr, i.X)
	switch i.Op {
	case token.MUL:
		return st.load(x.(Ptr))
	case token.NOT:
		b := x.(Bool)
		if b.T != nil {
			return mkBoolT(tNot(b.T))
		}
		return Bool{C: !b.C}
	case token.SUB:
		switch x := x.(type) {
		case Int:
			if x.T != nil {
				return mkIntT(x.W, x.Signed, tNeg(x.T))
			}
			return mkInt(x.W, x.Signed, -x.C)
		case Float:
			return Float{-x.F}
		}
	case token.XOR:
		xi := x.(Int)
		if xi.T != nil {
			return mkIntT(xi.W, xi.Signed, tBVNot(xi.T))
		}
		return mkInt(xi.W, xi.Signed, ^xi.C)
	case token.ARROW:
		v, ok := st.chanRecv(x.(Chan), i.X.Type().Underlying().(*types.Chan).Elem())
		if i.CommaOk {
			return Tuple{v, Bool{C: ok}}
		}
		return v
	}
	panic(fmt.Sprintf("unop %v on %T", i.Op, x))
}

func (st *State) typeAssert(i *ssa.TypeAssert, x Iface) Value {
	ok := false
	var res Value
	if x.T != nil {
		if it, isIface := i.AssertedType.Underlying().(*types.Interface); isIface {
			ok = st.in.implements(x.T, it)
			res = x
		} else {
			ok = types.Identical(x.T, i.AssertedType)
			res = x.V
		}
	}
	if !ok {
		if !i.CommaOk {
			have := "nil"
			if x.T != nil {
				have = x.T.String()
			}
			panic(goPanic{"interface conversion: interface is " + have + ", not " + i.AssertedType.String()})
		}
		res = zero(i.AssertedType)
	}
	if i.CommaOk {
		return Tuple{res, Bool{C: ok}}
	}
	return res
}

func (in *Interp) implements(t types.Type, it *types.Interface) bool {
	if it.NumMethods() == 0 {
		return true
	}
	if types.IsInterface(t) {
		return true // dummy of a cut package
	}
	methMu.Lock()
	defer methMu.Unlock()
	ms := in.prog.MethodSets.MethodSet(t)
	for k := 0; k < it.NumMethods(); k++ {
		m := it.Method(k)
		sel := ms.Lookup(m.Pkg(), m.Name())
		if sel == nil {
			return false
		}
		if !types.Identical(sel.Type().(*types.Signature).Params(), m.Type().(*types.Signature).Params()) ||
			!types.Identical(sel.Type().(*types.Signature).Results(), m.Type().(*types.Signature).Results()) {
			return false
		}
	}
	return true
}

// ---- symbolic control ----

// decide resolves a symbolic condition, forking when both outcomes are feasible.
// It must be called before the instruction performs side effects.
func (st *State) decide(c *Term) bool {
	switch c.Op {
	case "true":
		return true
	case "false":
		return false
	}
	if st.fpos < len(st.forced) {
		v := st.forced[st.fpos]
		st.fpos++
		st.decs = append(st.decs, v)
		return v
	}
	if st.syncDepth > 0 {
		unsupported("symbolic branch inside a synchronous engine call")
	}
	sv := st.w.solver
	r1, _ := sv.check(st.pc, c, nil)
	if r1 != "sat" && r1 != "unsat" {
		st.inconclusive("solver " + r1 + " on branch condition")
	}
	notc := tNot(c)
	if r1 == "unsat" {
		// the path condition is satisfiable by construction, so ¬c is feasible
		st.decs = append(st.decs, false)
		st.pc = st.pc.push(notc)
		return false
	}
	r2, _ := sv.check(st.pc, notc, nil)
	if r2 != "sat" && r2 != "unsat" {
		st.inconclusive("solver " + r2 + " on branch condition")
	}
	if r2 == "unsat" {
		st.decs = append(st.decs, true)
		st.pc = st.pc.push(c)
		return true
	}
	other := st.fork()
	other.pc = st.pc.push(notc)
	other.forced = append(append([]bool(nil), st.decs...), false)
	other.decs = nil
	st.w.push(other)
	st.decs = append(st.decs, true)
	st.pc = st.pc.push(c)
	return true
}

func (st *State) inconclusive(msg string) {
	st.finish(stInconclusive, msg+" @ "+st.where())
	panic(forkAbort{})
}

// assume adds c to the path condition; the path dies if it becomes infeasible.
func (st *State) assume(c *Term) {
	switch c.Op {
	case "true":
		return
	case "false":
		st.finish(stAssumeFalse, "")
		panic(forkAbort{})
	}
	r, _ := st.w.solver.check(st.pc, c, nil)
	switch r {
	case "sat":
		st.pc = st.pc.push(c)
	case "unsat":
		st.finish(stAssumeFalse, "")
		panic(forkAbort{})
	default:
		st.inconclusive("solver " + r + " on assumption")
	}
}

// concrete returns a concrete value for i, forking over all feasible values.
func (st *State) concrete(i Int) int {
	if i.T == nil {
		return int(i.sval())
	}
	if st.syncDepth > 0 {
		unsupported("concretisation inside a synchronous engine call")
	}
	sv := st.w.solver
	res, val := sv.check(st.pc, nil, []*Term{i.T})
	if res != "sat" {
		st.inconclusive("solver " + res + " on concretisation")
	}
	c := mkInt(i.W, i.Signed, val[0])
	eq := tEq(i.T, bvConst(i.W, val[0]))
	ne := tNot(eq)
	if r, _ := sv.check(st.pc, ne, nil); r == "sat" {
		other := st.fork()
		other.pc = st.pc.push(ne)
		other.forced = append([]bool(nil), st.decs...)
		other.decs = nil
		st.w.push(other)
	} else if r != "unsat" {
		st.inconclusive("solver " + r + " on concretisation")
	}
	st.pc = st.pc.push(eq)
	st.w.concretizations++
	st.symBranches++ // a value split decided by the solver is a branch decision of the path
	return int(c.sval())
}

// concreteIndex concretises an index into a container of length n; out-of-range values take the
// Go run-time panic path (one fork for all of them).
func (st *State) concreteIndex(i Int, n int) int {
	if i.T == nil {
		idx := int(i.sval())
		if idx < 0 || idx >= n {
			panic(goPanic{fmt.Sprintf("index out of range [%d] with length %d", idx, n)})
		}
		return idx
	}
	inRange := indexInRange(i, n)
	if !st.decide(inRange) {
		panic(goPanic{fmt.Sprintf("index out of range [symbolic] with length %d", n)})
	}
	return st.concrete(i)
}

// symIndexRead reads elems[idx] for a possibly symbolic idx without forking per value (ite chain) when
// the elements are scalars.
func (st *State) symIndexRead(elems []Value, idx Int) Value {
	n := len(elems)
	if idx.T == nil {
		k := int(idx.sval())
		if k < 0 || k >= n {
			panic(goPanic{fmt.Sprintf("index out of range [%d] with length %d", k, n)})
		}
		return elems[k]
	}
	inRange := indexInRange(idx, n)
	if !st.decide(inRange) {
		panic(goPanic{fmt.Sprintf("index out of range [symbolic] with length %d", n)})
	}
	if e0, ok := elems[0].(Int); ok && n <= 512 {
		res := elems[n-1].(Int).term()
		for k := n - 2; k >= 0; k-- {
			res = tIte(tEq(idx.T, bvConst(idx.W, uint64(k))), elems[k].(Int).term(), res)
		}
		return mkIntT(e0.W, e0.Signed, res)
	}
	return elems[st.concrete(idx)]
}

// indexInRange builds 0 <= i < n for an index of any integer type (compared at 64 bits).
func indexInRange(i Int, n int) *Term {
	if n == 0 {
		return tFalse
	}
	t := i.T
	if i.W < 64 {
		if i.Signed {
			t = tSext(t, 64)
		} else {
			t = tZext(t, 64)
		}
	}
	return tCmp("bvult", t, bvConst(64, uint64(n)))
}
