package main

import (
	"fmt"
	"strings"
	"sync/atomic"
)

// Term is an SMT term: a bit-vector of width W (W>0) or a Bool (W==0).
// Terms are immutable once built and may be shared between states and workers.
type Term struct {
	Op   string // "var", "const", "true", "false", or an SMT-LIB operator, or "zext"/"sext"/"extract"
	Args []*Term
	W    uint8  // result width in bits; 0 for Bool
	C    uint64 // value for "const"
	Lo   uint8  // low bit for "extract"
	Name string // for "var"
	str  atomic.Pointer[string]
	size int32 // number of nodes (tree size, saturating) for blow-up detection
	hard bool  // contains division/remainder by a non-power-of-two or a symbolic multiplication
}

var termsBuilt atomic.Int64

var tTrue = &Term{Op: "true"}
var tFalse = &Term{Op: "false"}

func boolConst(b bool) *Term {
	if b {
		return tTrue
	}
	return tFalse
}

func bvConst(w uint8, c uint64) *Term {
	return &Term{Op: "const", W: w, C: c & mask(w), size: 1}
}

func newVar(name string, w uint8) *Term {
	return &Term{Op: "var", W: w, Name: name, size: 1}
}

func (t *Term) isConst() bool { return t.Op == "const" || t.Op == "true" || t.Op == "false" }

func mk(op string, w uint8, args ...*Term) *Term {
	termsBuilt.Add(1)
	sz := int32(1)
	hard := false
	for _, a := range args {
		if sz < 1<<30 {
			sz += a.size
		}
		hard = hard || a.hard
	}
	switch op {
	case "bvudiv", "bvurem", "bvsdiv", "bvsrem":
		d := args[1]
		if d.Op != "const" || d.C&(d.C-1) != 0 {
			hard = true
		}
	case "bvmul":
		if args[0].Op != "const" && args[1].Op != "const" {
			hard = true
		}
		for _, a := range args {
			if a.Op == "const" && a.C&(a.C-1) != 0 && a.C > 1<<12 {
				hard = true
			}
		}
	}
	return &Term{Op: op, W: w, Args: args, size: sz, hard: hard}
}

// ---- boolean constructors with light simplification ----

func tNot(a *Term) *Term {
	switch a.Op {
	case "true":
		return tFalse
	case "false":
		return tTrue
	case "not":
		return a.Args[0]
	}
	return mk("not", 0, a)
}

func tAnd(a, b *Term) *Term {
	if a.Op == "true" {
		return b
	}
	if b.Op == "true" {
		return a
	}
	if a.Op == "false" || b.Op == "false" {
		return tFalse
	}
	if a == b {
		return a
	}
	// keep conjunctions flat (n-ary) so that long accumulated conjunctions print in linear size
	if a.Op == "and" && len(a.Args) < 4096 {
		args := make([]*Term, len(a.Args), len(a.Args)+1)
		copy(args, a.Args)
		return mk("and", 0, append(args, b)...)
	}
	return mk("and", 0, a, b)
}

func tOr(a, b *Term) *Term {
	if a.Op == "false" {
		return b
	}
	if b.Op == "false" {
		return a
	}
	if a.Op == "true" || b.Op == "true" {
		return tTrue
	}
	if a == b {
		return a
	}
	return mk("or", 0, a, b)
}

func tIte(c, a, b *Term) *Term {
	if c.Op == "true" {
		return a
	}
	if c.Op == "false" {
		return b
	}
	if a == b {
		return a
	}
	if a.W == 0 {
		if a.Op == "true" && b.Op == "false" {
			return c
		}
		if a.Op == "false" && b.Op == "true" {
			return tNot(c)
		}
	}
	return mk("ite", a.W, c, a, b)
}

func tEq(a, b *Term) *Term {
	if a == b {
		return tTrue
	}
	if a.Op == "const" && b.Op == "const" {
		return boolConst(a.C == b.C)
	}
	if a.W == 0 {
		if a.isConst() && b.isConst() {
			return boolConst(a.Op == b.Op)
		}
		if a.Op == "true" {
			return b
		}
		if b.Op == "true" {
			return a
		}
		if a.Op == "false" {
			return tNot(b)
		}
		if b.Op == "false" {
			return tNot(a)
		}
	}
	// (= (zext x) const) where const does not fit: false
	if b.Op == "const" && a.Op == "zext" {
		x := a.Args[0]
		if b.C > mask(x.W) {
			return tFalse
		}
		return tEq(x, bvConst(x.W, b.C))
	}
	if a.Op == "const" && b.Op == "zext" {
		return tEq(b, a)
	}
	return mk("=", 0, a, b)
}

// ---- bit-vector constructors ----

func sx(c uint64, w uint8) int64 {
	sh := 64 - uint(w)
	return int64(c<<sh) >> sh
}

func foldBV(op string, w uint8, a, b uint64) (uint64, bool) {
	m := mask(w)
	switch op {
	case "bvadd":
		return (a + b) & m, true
	case "bvsub":
		return (a - b) & m, true
	case "bvmul":
		return (a * b) & m, true
	case "bvand":
		return a & b, true
	case "bvor":
		return a | b, true
	case "bvxor":
		return a ^ b, true
	case "bvshl":
		if b >= uint64(w) {
			return 0, true
		}
		return (a << b) & m, true
	case "bvlshr":
		if b >= uint64(w) {
			return 0, true
		}
		return a >> b, true
	case "bvashr":
		if b >= uint64(w) {
			b = uint64(w) - 1
		}
		return uint64(sx(a, w)>>b) & m, true
	case "bvudiv":
		if b == 0 {
			return m, true
		}
		return a / b, true
	case "bvurem":
		if b == 0 {
			return a, true
		}
		return a % b, true
	case "bvsdiv":
		if b == 0 || w > 64 {
			return 0, false
		}
		if sx(b, w) == -1 {
			return (-a) & m, true
		}
		return uint64(sx(a, w)/sx(b, w)) & m, true
	case "bvsrem":
		if b == 0 || w > 64 {
			return 0, false
		}
		if sx(b, w) == -1 {
			return 0, true
		}
		return uint64(sx(a, w)%sx(b, w)) & m, true
	}
	return 0, false
}

func tBV(op string, a, b *Term) *Term {
	w := a.W
	if a.W != b.W {
		panic(fmt.Sprintf("tBV %s: width mismatch %d vs %d", op, a.W, b.W))
	}
	if a.Op == "const" && b.Op == "const" && w <= 64 {
		if c, ok := foldBV(op, w, a.C, b.C); ok {
			return bvConst(w, c)
		}
	}
	// division and remainder by a power of two become shifts and masks (cheap for bit-blasting)
	if b.Op == "const" && b.C != 0 && b.C&(b.C-1) == 0 && w <= 64 && sx(b.C, w) > 0 {
		k := uint64(0)
		for (uint64(1) << k) != b.C {
			k++
		}
		kc := bvConst(w, k)
		switch op {
		case "bvudiv":
			return tBV("bvlshr", a, kc)
		case "bvurem":
			return tBV("bvand", a, bvConst(w, b.C-1))
		case "bvsdiv":
			if k == 0 {
				return a
			}
			neg := tCmp("bvslt", a, bvConst(w, 0))
			return tIte(neg, tNeg(tBV("bvlshr", tNeg(a), kc)), tBV("bvlshr", a, kc))
		case "bvsrem":
			if k == 0 {
				return bvConst(w, 0)
			}
			neg := tCmp("bvslt", a, bvConst(w, 0))
			m := bvConst(w, b.C-1)
			return tIte(neg, tNeg(tBV("bvand", tNeg(a), m)), tBV("bvand", a, m))
		}
	}
	// identities
	switch op {
	case "bvadd", "bvor", "bvxor":
		if a.Op == "const" && a.C == 0 {
			return b
		}
		if b.Op == "const" && b.C == 0 {
			return a
		}
	case "bvsub", "bvshl", "bvlshr", "bvashr":
		if b.Op == "const" && b.C == 0 {
			return a
		}
		if op != "bvsub" && a.Op == "const" && a.C == 0 {
			return a
		}
		if (op == "bvshl" || op == "bvlshr") && b.Op == "const" && b.C >= uint64(w) {
			return bvConst(w, 0)
		}
	case "bvand":
		if a.Op == "const" && a.C == 0 {
			return a
		}
		if b.Op == "const" && b.C == 0 {
			return b
		}
		if a.Op == "const" && a.C == mask(w) {
			return b
		}
		if b.Op == "const" && b.C == mask(w) {
			return a
		}
	case "bvmul":
		if a.Op == "const" && a.C == 1 {
			return b
		}
		if b.Op == "const" && b.C == 1 {
			return a
		}
		if (a.Op == "const" && a.C == 0) || (b.Op == "const" && b.C == 0) {
			return bvConst(w, 0)
		}
	}
	return mk(op, w, a, b)
}

func tCmp(op string, a, b *Term) *Term {
	if a.W != b.W {
		panic(fmt.Sprintf("tCmp %s: width mismatch %d vs %d", op, a.W, b.W))
	}
	if a.Op == "const" && b.Op == "const" && a.W <= 64 {
		w := a.W
		switch op {
		case "bvult":
			return boolConst(a.C < b.C)
		case "bvule":
			return boolConst(a.C <= b.C)
		case "bvugt":
			return boolConst(a.C > b.C)
		case "bvuge":
			return boolConst(a.C >= b.C)
		case "bvslt":
			return boolConst(sx(a.C, w) < sx(b.C, w))
		case "bvsle":
			return boolConst(sx(a.C, w) <= sx(b.C, w))
		case "bvsgt":
			return boolConst(sx(a.C, w) > sx(b.C, w))
		case "bvsge":
			return boolConst(sx(a.C, w) >= sx(b.C, w))
		}
	}
	if a == b {
		switch op {
		case "bvult", "bvugt", "bvslt", "bvsgt":
			return tFalse
		default:
			return tTrue
		}
	}
	// unsigned comparisons of a zero-extended narrow value against a constant that
	// exceeds its range are decided syntactically (frequent in length checks).
	if a.Op == "zext" && b.Op == "const" {
		mx := mask(a.Args[0].W)
		switch op {
		case "bvult":
			if b.C > mx {
				return tTrue
			}
		case "bvule":
			if b.C >= mx {
				return tTrue
			}
		case "bvugt":
			if b.C >= mx {
				return tFalse
			}
		case "bvuge":
			if b.C > mx {
				return tFalse
			}
		}
		if a.W <= 64 && sx(b.C, a.W) >= 0 {
			switch op {
			case "bvslt":
				if b.C > mx {
					return tTrue
				}
			case "bvsle":
				if b.C >= mx {
					return tTrue
				}
			case "bvsgt":
				if b.C >= mx {
					return tFalse
				}
			case "bvsge":
				if b.C > mx {
					return tFalse
				}
			}
		}
	}
	return mk(op, 0, a, b)
}

func tNeg(a *Term) *Term {
	if a.Op == "const" {
		return bvConst(a.W, -a.C)
	}
	return mk("bvneg", a.W, a)
}

func tBVNot(a *Term) *Term {
	if a.Op == "const" {
		return bvConst(a.W, ^a.C)
	}
	return mk("bvnot", a.W, a)
}

func tZext(a *Term, w uint8) *Term {
	if w == a.W {
		return a
	}
	if w < a.W {
		return tExtract(a, w-1, 0)
	}
	if a.Op == "const" {
		return bvConst(w, a.C)
	}
	if a.Op == "zext" {
		return tZext(a.Args[0], w)
	}
	return mk("zext", w, a)
}

func tSext(a *Term, w uint8) *Term {
	if w == a.W {
		return a
	}
	if w < a.W {
		return tExtract(a, w-1, 0)
	}
	if a.Op == "const" && w <= 64 {
		return bvConst(w, uint64(sx(a.C, a.W)))
	}
	if a.Op == "zext" { // sign bit is known zero
		return tZext(a.Args[0], w)
	}
	return mk("sext", w, a)
}

// tExtract returns bits hi..lo of a.
func tExtract(a *Term, hi, lo uint8) *Term {
	w := hi - lo + 1
	if lo == 0 && w == a.W {
		return a
	}
	if a.Op == "const" && a.W <= 64 {
		return bvConst(w, a.C>>lo)
	}
	if (a.Op == "zext" || a.Op == "sext") && lo == 0 && w <= a.Args[0].W {
		return tExtract(a.Args[0], hi, 0)
	}
	if a.Op == "zext" && lo >= a.Args[0].W {
		return bvConst(w, 0)
	}
	if a.Op == "concat" {
		lw := a.Args[1].W
		if hi < lw {
			return tExtract(a.Args[1], hi, lo)
		}
		if lo >= lw {
			return tExtract(a.Args[0], hi-lw, lo-lw)
		}
	}
	// extract of low bits distributes over bitwise ops and add/sub/mul/shl (keeps byte terms small)
	if lo == 0 {
		switch a.Op {
		case "bvor", "bvand", "bvxor":
			return tBV(a.Op, tExtract(a.Args[0], hi, 0), tExtract(a.Args[1], hi, 0))
		case "bvshl":
			if a.Args[1].Op == "const" {
				sh := a.Args[1].C
				if sh >= uint64(w) {
					return bvConst(w, 0)
				}
				return tBV("bvshl", tExtract(a.Args[0], hi, 0), bvConst(w, sh))
			}
		}
	}
	if a.Op == "bvlshr" && a.Args[1].Op == "const" {
		sh := a.Args[1].C
		if uint64(hi)+sh < uint64(a.W) {
			return tExtract(a.Args[0], hi+uint8(sh), lo+uint8(sh))
		}
	}
	if a.Op == "bvshl" && a.Args[1].Op == "const" {
		sh := a.Args[1].C
		if uint64(lo) >= sh {
			return tExtract(a.Args[0], hi-uint8(sh), lo-uint8(sh))
		}
		if uint64(hi) < sh {
			return bvConst(w, 0)
		}
	}
	if a.Op == "bvor" || a.Op == "bvand" || a.Op == "bvxor" {
		return tBV(a.Op, tExtract(a.Args[0], hi, lo), tExtract(a.Args[1], hi, lo))
	}
	t := mk("extract", w, a)
	t.Lo = lo
	return t
}

func tConcat(hi, lo *Term) *Term {
	w := hi.W + lo.W
	if hi.Op == "const" && lo.Op == "const" && w <= 64 {
		return bvConst(w, hi.C<<lo.W|lo.C)
	}
	return mk("concat", w, hi, lo)
}

// ---- printing ----

func (t *Term) smt() string {
	if p := t.str.Load(); p != nil {
		return *p
	}
	var s string
	switch t.Op {
	case "var":
		s = t.Name
	case "const":
		if t.W%4 == 0 {
			s = fmt.Sprintf("#x%0*x", int(t.W/4), t.C)
		} else {
			s = fmt.Sprintf("(_ bv%d %d)", t.C, t.W)
		}
	case "true", "false":
		s = t.Op
	case "zext":
		s = fmt.Sprintf("((_ zero_extend %d) %s)", int(t.W)-int(t.Args[0].W), t.Args[0].smt())
	case "sext":
		s = fmt.Sprintf("((_ sign_extend %d) %s)", int(t.W)-int(t.Args[0].W), t.Args[0].smt())
	case "extract":
		s = fmt.Sprintf("((_ extract %d %d) %s)", int(t.Lo)+int(t.W)-1, t.Lo, t.Args[0].smt())
	default:
		var sb strings.Builder
		sb.WriteString("(")
		sb.WriteString(t.Op)
		for _, a := range t.Args {
			sb.WriteString(" ")
			sb.WriteString(a.smt())
		}
		sb.WriteString(")")
		s = sb.String()
	}
	t.str.Store(&s)
	return s
}

// vars appends the free variables of t to out (deduplicated through seen).
func (t *Term) vars(seen map[*Term]bool, out *[]*Term) {
	if seen[t] {
		return
	}
	seen[t] = true
	if t.Op == "var" {
		*out = append(*out, t)
		return
	}
	for _, a := range t.Args {
		a.vars(seen, out)
	}
}

func mask(w uint8) uint64 {
	if w >= 64 {
		return ^uint64(0)
	}
	return (uint64(1) << w) - 1
}
