//go:build verif

package sunlight

import (
	"context"
	"errors"

	"filippo.io/torchwood"
	"golang.org/x/mod/sumdb/tlog"
)

// ---------------------------------------------------------------------------
// C12 — the monitoring client never yields unauthenticated log content
// ---------------------------------------------------------------------------

// verifCoveredEqual compares the Merkle-covered fields of two entries.
func verifCoveredEqual(a, b *LogEntry) bool {
	if a.IsPrecert != b.IsPrecert || a.Timestamp != b.Timestamp || a.RFC6962ArchivalLeaf != b.RFC6962ArchivalLeaf {
		return false
	}
	if !a.RFC6962ArchivalLeaf && a.LeafIndex != b.LeafIndex {
		return false
	}
	if a.IsPrecert && a.IssuerKeyHash != b.IssuerKeyHash {
		return false
	}
	return verifBytesEq(a.Certificate, b.Certificate)
}

// VerifC12Injective: the RFC 6962 leaf bytes determine every covered field, for entries of two
// (possibly different) shapes. With an ideal hash this lifts to the record hash.
func VerifC12Injective(pre1, lc1, arch1, pre2, lc2, arch2 int) {
	e1 := verifEntry(pre1, lc1, 0, 0, arch1)
	e2 := verifEntry(pre2, lc2, 0, 0, arch2)
	m1, m2 := e1.MerkleTreeLeaf(), e2.MerkleTreeLeaf()
	if !verifBytesEq(m1, m2) {
		verifReach("different")
		return
	}
	verifReach("equal")
	verifAssert(verifCoveredEqual(e1, e2), "equal MerkleTreeLeaf bytes imply equal covered fields")
}

// VerifC12Cut: cutEntry is coherent with the parser used afterwards on the yielded bytes.
func VerifC12Cut(n int) {
	tile := verifNondetBytes("tile", n)
	entry, rh, rest, err := cutEntry(tile)
	if err != nil {
		verifReach("reject")
		return
	}
	verifReach("cut")
	verifAssert(len(entry)+len(rest) == len(tile), "entry and rest partition the tile")
	verifAssert(verifBytesEq(entry, tile[:len(entry)]) && verifBytesEq(rest, tile[len(entry):]), "entry is the prefix and rest the suffix")
	e1, _, err1 := ReadTileLeafMaybeArchival(tile)
	e2, rest2, err2 := ReadTileLeafMaybeArchival(entry)
	verifAssert(err1 == nil && err2 == nil && len(rest2) == 0, "the cut entry parses on its own with nothing left")
	if err1 != nil || err2 != nil {
		return
	}
	verifAssert(verifCoveredEqual(e1, e2), "re-parsing the cut entry gives the same covered fields")
	verifAssert(rh == tlog.RecordHash(verifRefMerkleTreeLeaf(e2)), "record hash is the RFC 6962 leaf hash of the yielded entry")
}

// ---- end-to-end through the real torchwood client over a tampered tile store ----

type verifTileStore struct {
	tiles map[string][]byte
	saved int
}

func (s *verifTileStore) ReadTiles(ctx context.Context, tiles []tlog.Tile) ([][]byte, error) {
	var out [][]byte
	for _, t := range tiles {
		b, ok := s.tiles[TilePath(t)]
		if !ok {
			return nil, errors.New("tile not found")
		}
		out = append(out, b)
	}
	return out, nil
}
func (s *verifTileStore) SaveTiles(tiles []tlog.Tile, data [][]byte) { s.saved += len(tiles) }
func (s *verifTileStore) ReadEndpoint(ctx context.Context, path string) ([]byte, error) {
	b, ok := s.tiles[path]
	if !ok {
		return nil, errors.New("endpoint not found")
	}
	return b, nil
}

type verifLog struct {
	entries []*LogEntry
	stored  []tlog.Hash
	tree    tlog.Tree
	store   *verifTileStore
	data    []byte
}

func (l *verifLog) ReadHashes(idx []int64) ([]tlog.Hash, error) {
	out := make([]tlog.Hash, len(idx))
	for i, x := range idx {
		out[i] = l.stored[x]
	}
	return out, nil
}

// verifBuildLog builds an authentic log of n entries (n <= 256) whose contents are symbolic.
func verifBuildLog(n, lc, precert int) *verifLog {
	l := &verifLog{store: &verifTileStore{tiles: map[string][]byte{}}}
	for i := 0; i < n; i++ {
		e := verifEntry(precert, lc, 1, 0, 0)
		e.LeafIndex = int64(i)
		l.entries = append(l.entries, e)
		l.data = AppendTileLeaf(l.data, e)
		hs, err := tlog.StoredHashes(int64(i), verifRefMerkleTreeLeaf(e), l)
		if err != nil {
			panic(err)
		}
		l.stored = append(l.stored, hs...)
	}
	th, err := tlog.TreeHash(int64(n), l)
	if err != nil {
		panic(err)
	}
	l.tree = tlog.Tree{N: int64(n), Hash: th}
	for _, t := range tlog.NewTiles(TileHeight, 0, int64(n)) {
		d, err := tlog.ReadTileData(t, l)
		if err != nil {
			panic(err)
		}
		l.store.tiles[TilePath(t)] = d
	}
	dt := tlog.Tile{H: TileHeight, L: -1, N: 0, W: n}
	l.store.tiles[TilePath(dt)] = l.data
	return l
}

// VerifC12Entry: the single-entry fetch over a store whose data tile was replaced by arbitrary bytes
// (same length + delta) either fails or returns exactly the authentic covered fields.
// mode 0: the data tile is replaced; mode 1: the level-0 hash tile is replaced; mode 2: both authentic (sanity).
func VerifC12Entry(n, lc, precert, idx, delta, mode, allowArchival int) {
	l := verifBuildLog(n, lc, precert)
	dt := TilePath(tlog.Tile{H: TileHeight, L: -1, N: 0, W: n})
	ht := TilePath(tlog.Tile{H: TileHeight, L: 0, N: 0, W: n})
	switch mode {
	case 0:
		l.store.tiles[dt] = verifNondetBytes("tampered", len(l.data)+delta)
	case 1:
		l.store.tiles[ht] = verifNondetBytes("tamperedhash", len(l.store.tiles[ht])+delta)
	}
	tc, err := torchwood.NewClient(l.store, torchwood.WithCutEntry(cutEntry))
	if err != nil {
		panic(err)
	}
	c := &Client{c: tc, r: l.store, cc: &ClientConfig{AllowRFC6962ArchivalLeafs: allowArchival == 1}}
	e, _, err := c.Entry(context.Background(), l.tree, int64(idx))
	if err != nil {
		verifReach("refused")
		verifAssert(mode != 2, "an authentic store is served without error")
		return
	}
	verifReach("returned")
	verifAssert(verifCoveredEqual(e, l.entries[idx]), "returned entry has the authentic covered fields")
	verifAssert(e.LeafIndex == int64(idx) && !e.RFC6962ArchivalLeaf, "returned entry carries the requested index")
}

// VerifC12Entries: the iterators over a tampered store yield only authentic entries, in order.
func VerifC12Entries(n, lc, delta, mode int) {
	l := verifBuildLog(n, lc, 0)
	dt := TilePath(tlog.Tile{H: TileHeight, L: -1, N: 0, W: n})
	ht := TilePath(tlog.Tile{H: TileHeight, L: 0, N: 0, W: n})
	switch mode {
	case 0:
		l.store.tiles[dt] = verifNondetBytes("tampered", len(l.data)+delta)
	case 1:
		l.store.tiles[ht] = verifNondetBytes("tamperedhash", len(l.store.tiles[ht])+delta)
	}
	tc, err := torchwood.NewClient(l.store, torchwood.WithCutEntry(cutEntry))
	if err != nil {
		panic(err)
	}
	c := &Client{c: tc, r: l.store, cc: &ClientConfig{}}
	next := int64(0)
	for i, e := range c.AllEntries(context.Background(), l.tree, 0) {
		verifAssert(i == next, "entries are yielded in order without gaps")
		verifAssert(i < int64(n), "no entry beyond the tree size is yielded")
		if i >= int64(n) {
			return
		}
		verifAssert(verifCoveredEqual(e, l.entries[i]), "yielded entry has the authentic covered fields")
		next = i + 1
	}
	if c.Err() == nil {
		verifReach("complete")
		verifAssert(next == int64(n), "a scan that ends without error yielded the whole tree")
	} else {
		verifReach("stopped")
		verifAssert(mode != 2, "an authentic store is scanned without error")
	}
}
