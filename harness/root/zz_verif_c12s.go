//go:build verif

package sunlight

import (
	"context"
	"crypto"
	"crypto/sha256"
	"crypto/x509"
	"errors"

	"filippo.io/torchwood"
	ct "github.com/google/certificate-transparency-go"
	"github.com/google/certificate-transparency-go/tls"
	"golang.org/x/mod/sumdb/tlog"
)

// C12 (continued): SCT inclusion check with the environment stubbed by contract.
//
// Contracts: tls.Unmarshal fails or yields an arbitrary SCT structure; the torchwood client
// yields, for the requested index, bytes that are authenticated against the tree head (arbitrary
// bytes here: whatever the log committed to) or fails; tls.VerifySignature is an ideal predicate.

var verifC12s struct {
	sct        ct.SignedCertificateTimestamp
	entryBytes []byte
	reqIndex   int64
	entryCalls int
	sigCalls   int
	sigKey     crypto.PublicKey
	sigData    []byte
	sigSig     tls.DigitallySigned
	sigOK      bool
}

//verif:stub github.com/google/certificate-transparency-go/tls.Unmarshal
func verifStubTLSUnmarshal(b []byte, val interface{}) ([]byte, error) {
	if verifNondetBool("sct-malformed") {
		return nil, errors.New("malformed SCT")
	}
	*(val.(*ct.SignedCertificateTimestamp)) = verifC12s.sct
	return nil, nil
}

//verif:stub github.com/google/certificate-transparency-go/tls.VerifySignature
func verifStubVerifySignature(pubKey crypto.PublicKey, data []byte, sig tls.DigitallySigned) error {
	verifC12s.sigCalls++
	verifC12s.sigKey = pubKey
	verifC12s.sigData = append([]byte{}, data...)
	verifC12s.sigSig = sig
	verifC12s.sigOK = verifNondetBool("signature-valid")
	if !verifC12s.sigOK {
		return errors.New("signature does not verify")
	}
	return nil
}

//verif:stub (*filippo.io/torchwood.Client).Entry
func verifStubTorchwoodEntry(c *torchwood.Client, ctx context.Context, tree tlog.Tree, index int64) ([]byte, tlog.RecordProof, error) {
	verifC12s.entryCalls++
	verifC12s.reqIndex = index
	if verifNondetBool("fetch-fails") {
		return nil, nil, errors.New("entry not authenticated")
	}
	return verifC12s.entryBytes, nil, nil
}

// VerifC12Inclusion: CheckInclusion succeeds only if log ID, version, timestamp, leaf index and
// signature all match the authentic leaf.
func VerifC12Inclusion(precert, lc, extLen int) {
	key := verifNewECDSAKey()
	other := verifNewECDSAKey()
	_ = other
	// the authentic leaf at the index the SCT names: arbitrary content of the given shape
	leaf := verifEntry(precert, lc, 1, 0, 0)
	verifC12s.entryBytes = AppendTileLeaf(nil, leaf)
	s := &verifC12s.sct
	s.SCTVersion = ct.Version(verifNondetByte("version"))
	copy(s.LogID.KeyID[:], verifNondetBytes("logid", 32))
	s.Timestamp = verifNondetUint64("sct-timestamp")
	s.Extensions = verifNondetBytes("sct-ext", extLen)
	s.Signature.Algorithm.Hash = tls.HashAlgorithm(verifNondetByte("hashalg"))
	s.Signature.Algorithm.Signature = tls.SignatureAlgorithm(verifNondetByte("sigalg"))
	s.Signature.Signature = verifNondetBytes("sig", 3)

	c := &Client{c: &torchwood.Client{}, cc: &ClientConfig{PublicKey: key.Public()}}
	tree := tlog.Tree{N: 1 << 41}
	e, _, err := c.CheckInclusion(context.Background(), tree, []byte("sct"))
	if err != nil {
		verifReach("refused")
		return
	}
	verifReach("confirmed")
	spki, _ := x509.MarshalPKIXPublicKey(key.Public())
	want := sha256.Sum256(spki)
	verifAssert(s.LogID.KeyID == want, "log ID is the hash of the configured key")
	verifAssert(s.SCTVersion == ct.V1, "SCT version is v1")
	verifAssert(verifC12s.entryCalls == 1, "the entry was fetched once through the authenticating client")
	// independent parse of the SCT extension: first leaf_index extension
	x := s.Extensions
	idx := int64(-1)
	for p := 0; p+3 <= len(x); {
		l := int(x[p+1])<<8 | int(x[p+2])
		if x[p] == 0 {
			if l == 5 && p+8 <= len(x) {
				idx = int64(x[p+3])<<32 | int64(x[p+4])<<24 | int64(x[p+5])<<16 | int64(x[p+6])<<8 | int64(x[p+7])
			}
			break
		}
		p += 3 + l
	}
	verifAssert(idx >= 0 && verifC12s.reqIndex == idx, "the entry was requested at the index in the SCT extension")
	verifAssert(e.LeafIndex == idx, "the returned leaf carries that index")
	verifAssert(e.Timestamp == int64(s.Timestamp) && e.Timestamp == leaf.Timestamp, "SCT timestamp equals the authentic leaf's")
	verifAssert(verifCoveredEqual(e, leaf), "the returned entry is the authentic leaf")
	verifAssert(verifC12s.sigCalls == 1 && verifC12s.sigOK, "the signature was verified and accepted")
	verifAssert(verifC12s.sigKey == crypto.PublicKey(key.Public()), "the signature was verified under the configured key")
	verifAssert(verifBytesEq(verifC12s.sigData, verifRefMerkleTreeLeaf(leaf)), "the signature covers the authentic leaf's MerkleTreeLeaf")
	verifAssert(verifC12s.sigSig.Algorithm == s.Signature.Algorithm && verifBytesEq(verifC12s.sigSig.Signature, s.Signature.Signature), "the SCT's own signature was the one verified")
}
