//go:build verif

package sunlight

import (
	"golang.org/x/mod/sumdb/tlog"
)

// ---------------------------------------------------------------------------
// C10 — tile, leaf, extension and tile-path encodings are canonical bijections
// ---------------------------------------------------------------------------

// VerifC10Decode: for every byte string of length n, decoding either fails or consumes a
// prefix that re-encodes to exactly the same bytes; no path panics.
func VerifC10Decode(n int) {
	buf := verifNondetBytes("tile", n)
	e, rest, err := ReadTileLeafMaybeArchival(buf)
	if err != nil {
		verifReach("reject")
		return
	}
	verifReach("accept")
	consumed := len(buf) - len(rest)
	verifAssert(consumed >= 0 && consumed <= len(buf), "rest is a suffix of the input")
	out := AppendTileLeaf(nil, e)
	verifAssert(verifBytesEq(out, buf[:consumed]), "accepted prefix re-encodes canonically")
	// the strict reader agrees except on archival leaves
	e2, rest2, err2 := ReadTileLeaf(buf)
	if e.RFC6962ArchivalLeaf {
		verifAssert(err2 != nil && e2 == nil, "ReadTileLeaf refuses archival leaves")
	} else {
		verifAssert(err2 == nil && len(rest2) == len(rest), "ReadTileLeaf agrees with the archival reader")
	}
	verifAssert(e.Timestamp >= 0, "decoded timestamp is non-negative")
	verifAssert(e.LeafIndex >= 0 && e.LeafIndex < 1<<40, "decoded index is 40-bit")
}

// VerifC10DecodeShape: as VerifC10Decode, with the shape (entry type, lengths) fixed by assumptions so
// that long entries (precertificates, fingerprints) are reached with few paths.
// shape: precert (0/1), certificate length lc, extension present (0/1), pre-certificate length lp, k fingerprints, trailing bytes t.
func VerifC10DecodeShape(precert, lc, ext, lp, k, t int) {
	n := 8 + 2 + 3 + lc + 2 + 2 + 32*k + t
	if ext == 1 {
		n += 8
	}
	if precert == 1 {
		n += 32 + 3 + lp
	}
	buf := verifNondetBytes("tile", n)
	p := 8
	verifAssume(buf[p] == 0 && buf[p+1] == byte(precert))
	p += 2
	if precert == 1 {
		p += 32
	}
	verifAssume(buf[p] == 0 && buf[p+1] == byte(lc>>8) && buf[p+2] == byte(lc))
	p += 3 + lc
	if ext == 1 {
		verifAssume(buf[p] == 0 && buf[p+1] == 8)
		p += 2 + 8
	} else {
		verifAssume(buf[p] == 0 && buf[p+1] == 0)
		p += 2
	}
	if precert == 1 {
		verifAssume(buf[p] == 0 && buf[p+1] == byte(lp>>8) && buf[p+2] == byte(lp))
		p += 3 + lp
	}
	verifAssume(buf[p] == byte((32*k)>>8) && buf[p+1] == byte(32*k))
	e, rest, err := ReadTileLeafMaybeArchival(buf)
	if err != nil {
		verifReach("reject")
		return
	}
	verifReach("accept")
	verifAssert(len(rest) == t, "exactly the trailing bytes remain")
	out := AppendTileLeaf(nil, e)
	verifAssert(verifBytesEq(out, buf[:len(buf)-len(rest)]), "accepted prefix re-encodes canonically")
	verifAssert(len(e.Certificate) == lc && len(e.ChainFingerprints) == k && e.IsPrecert == (precert == 1), "decoded shape")
	verifAssert(len(e.PreCertificate) == lp*precert, "decoded pre-certificate length")
	verifAssert(e.RFC6962ArchivalLeaf == (ext == 0), "archival flag is set exactly when the extension is absent")
}

func verifEntry(precert, lc, lp, k, archival int) *LogEntry {
	e := &LogEntry{}
	e.Certificate = verifNondetBytes("cert", lc)
	e.IsPrecert = precert == 1
	if e.IsPrecert {
		copy(e.IssuerKeyHash[:], verifNondetBytes("ikh", 32))
		e.PreCertificate = verifNondetBytes("precert", lp)
	}
	for i := 0; i < k; i++ {
		var f [32]byte
		copy(f[:], verifNondetBytes("fp", 32))
		e.ChainFingerprints = append(e.ChainFingerprints, f)
	}
	e.Timestamp = verifNondetInt64("timestamp")
	verifAssume(e.Timestamp >= 0)
	if archival == 1 {
		e.RFC6962ArchivalLeaf = true
	} else {
		e.LeafIndex = verifNondetInt64("index")
		verifAssume(e.LeafIndex >= 0 && e.LeafIndex < 1<<40)
	}
	return e
}

func verifSameEntry(a, b *LogEntry) bool {
	if a.IsPrecert != b.IsPrecert || a.Timestamp != b.Timestamp || a.LeafIndex != b.LeafIndex ||
		a.RFC6962ArchivalLeaf != b.RFC6962ArchivalLeaf || a.IssuerKeyHash != b.IssuerKeyHash {
		return false
	}
	if !verifBytesEq(a.Certificate, b.Certificate) || !verifBytesEq(a.PreCertificate, b.PreCertificate) {
		return false
	}
	if len(a.ChainFingerprints) != len(b.ChainFingerprints) {
		return false
	}
	for i := range a.ChainFingerprints {
		if a.ChainFingerprints[i] != b.ChainFingerprints[i] {
			return false
		}
	}
	return true
}

// VerifC10Encode: every entry within limits survives encode-then-decode unchanged, also when
// followed by arbitrary trailing bytes, and when appended to an existing tile prefix.
func VerifC10Encode(precert, lc, lp, k, archival, trailing int) {
	e := verifEntry(precert, lc, lp, k, archival)
	prefix := verifNondetBytes("prefix", 2)
	enc := AppendTileLeaf(prefix, e)
	verifAssert(verifBytesEq(enc[:2], prefix), "AppendTileLeaf keeps the existing tile bytes")
	enc = enc[2:]
	tail := verifNondetBytes("tail", trailing)
	in := append(append([]byte{}, enc...), tail...)
	var d *LogEntry
	var rest []byte
	var err error
	if archival == 1 {
		d, rest, err = ReadTileLeafMaybeArchival(in)
		_, _, errStrict := ReadTileLeaf(in)
		verifAssert(errStrict != nil, "strict reader refuses the archival leaf")
	} else {
		d, rest, err = ReadTileLeaf(in)
	}
	verifAssert(err == nil, "decoding an encoding succeeds")
	if err != nil {
		return
	}
	verifReach("decoded")
	verifAssert(verifBytesEq(rest, tail), "rest is exactly the trailing bytes")
	verifAssert(verifSameEntry(e, d), "decoded entry equals the encoded one")
}

// independent TLS-presentation encoder for RFC 6962 MerkleTreeLeaf (v1, timestamped_entry)
func verifRefMerkleTreeLeaf(e *LogEntry) []byte {
	var b []byte
	b = append(b, 0, 0)
	for s := 56; s >= 0; s -= 8 {
		b = append(b, byte(uint64(e.Timestamp)>>uint(s)))
	}
	if !e.IsPrecert {
		b = append(b, 0, 0)
	} else {
		b = append(b, 0, 1)
		b = append(b, e.IssuerKeyHash[:]...)
	}
	l := len(e.Certificate)
	b = append(b, byte(l>>16), byte(l>>8), byte(l))
	b = append(b, e.Certificate...)
	if e.RFC6962ArchivalLeaf {
		b = append(b, 0, 0)
	} else {
		// CTExtensions: one extension leaf_index(0) with a 5-byte body
		b = append(b, 0, 8, 0, 0, 5)
		for s := 32; s >= 0; s -= 8 {
			b = append(b, byte(uint64(e.LeafIndex)>>uint(s)))
		}
	}
	return b
}

// VerifC10MerkleLeaf: MerkleTreeLeaf equals the independent encoder's output.
func VerifC10MerkleLeaf(precert, lc, archival int) {
	e := verifEntry(precert, lc, 1, 1, archival)
	got := e.MerkleTreeLeaf()
	want := verifRefMerkleTreeLeaf(e)
	verifReach("encoded")
	verifAssert(verifBytesEq(got, want), "MerkleTreeLeaf matches RFC 6962 TLS presentation encoding")
}

// VerifC10Extensions: the leaf-index extension round-trips for all 40-bit values and is refused outside.
func VerifC10Extensions() {
	idx := verifNondetInt64("index")
	b, err := MarshalExtensions(Extensions{LeafIndex: idx})
	if idx < 0 || idx >= 1<<40 {
		verifReach("refused")
		verifAssert(err != nil, "out-of-range index is refused")
		return
	}
	verifReach("marshaled")
	verifAssert(err == nil, "in-range index is accepted")
	if err != nil {
		return
	}
	verifAssert(len(b) == 8 && b[0] == 0 && b[1] == 0 && b[2] == 5, "extension framing")
	got := int64(b[3])<<32 | int64(b[4])<<24 | int64(b[5])<<16 | int64(b[6])<<8 | int64(b[7])
	verifAssert(got == idx, "extension body is the big-endian 40-bit index")
	p, err := ParseExtensions(b)
	verifAssert(err == nil && p.LeafIndex == idx, "ParseExtensions inverts MarshalExtensions")
}

// VerifC10ParseExtensions: for any byte string, ParseExtensions never panics, and if it accepts
// then the bytes start with well-formed (possibly unknown) extensions followed by a leaf_index one.
func VerifC10ParseExtensions(n int) {
	buf := verifNondetBytes("ext", n)
	e, err := ParseExtensions(buf)
	if err != nil {
		verifReach("reject")
		return
	}
	verifReach("accept")
	verifAssert(e.LeafIndex >= 0 && e.LeafIndex < 1<<40, "parsed index is 40-bit")
	// independent scan
	p := 0
	for {
		verifAssert(p+3 <= len(buf), "accepted input has a complete extension header")
		if p+3 > len(buf) {
			return
		}
		l := int(buf[p+1])<<8 | int(buf[p+2])
		verifAssert(p+3+l <= len(buf), "accepted input has a complete extension body")
		if p+3+l > len(buf) {
			return
		}
		if buf[p] == 0 {
			verifAssert(l == 5, "leaf_index body is exactly 5 bytes")
			if l == 5 {
				got := int64(buf[p+3])<<32 | int64(buf[p+4])<<24 | int64(buf[p+5])<<16 | int64(buf[p+6])<<8 | int64(buf[p+7])
				verifAssert(got == e.LeafIndex, "parsed index equals the first leaf_index extension")
			}
			return
		}
		p += 3 + l
	}
}

// VerifC10TilePath: ParseTilePath(TilePath(t)) == t for hash, data and names tiles.
// level is concrete (-2..5), N is symbolic below 10^digits*... bounded by maxN, W symbolic in [1,256].
func VerifC10TilePath(level int, maxN int) {
	n := verifNondetInt64("N")
	w := verifNondetInt("W")
	verifAssume(n >= 0 && n < int64(maxN))
	verifAssume(w >= 1 && w <= 256)
	t := tlog.Tile{H: TileHeight, L: level, N: n, W: w}
	p := TilePath(t)
	verifReach("formatted")
	got, err := ParseTilePath(p)
	verifAssert(err == nil, "a formatted tile path parses")
	if err != nil {
		return
	}
	verifAssert(got == t, "ParseTilePath inverts TilePath")
}

// VerifC10ParsePath: for path strings built from the layout template with symbolic characters,
// parsing either fails or TilePath re-creates exactly the same string.
// kind: 0 = "tile/<L>/", 1 = "tile/data/", 2 = "tile/names/", 10-12 = the same with one of ten non-canonical prefixes; groups = number of 3-digit groups; partial: 0/1.
func VerifC10ParsePath(kind, groups, partial int) {
	var p string
	switch kind % 10 {
	case 0:
		p = "tile/" + verifNondetString("level", 1) + "/"
	case 1:
		p = "tile/data/"
	default:
		p = "tile/names/"
	}
	for g := 0; g < groups; g++ {
		if g > 0 {
			p += "/"
		}
		if g < groups-1 {
			p += verifNondetString("x", 1)
		}
		p += verifNondetString("digit", 3)
	}
	if partial == 1 {
		p += ".p/" + verifNondetString("width", 2)
	}
	if kind >= 10 {
		// the same layouts with a non-canonical prefix in place of "tile/"
		rest := p[len("tile/"):]
		alts := []string{"", "/", "tile", "tile//", "/tile/", "Tile/", "tile/8/", "tile/tile/", "tile/./", "x/"}
		p = alts[verifConcretize(verifChoice("path-prefix", len(alts)))] + rest
	}
	t, err := ParseTilePath(p)
	if err != nil {
		verifReach("reject")
		return
	}
	verifReach("accept")
	verifAssert(t.H == TileHeight && t.W >= 1 && t.W <= TileWidth && t.N >= 0 && t.L >= -2, "parsed tile is well-formed")
	back := TilePath(t)
	verifAssert(back == p, "TilePath inverts ParseTilePath")
}
