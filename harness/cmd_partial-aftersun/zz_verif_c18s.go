//go:build verif

package main

import (
	"crypto/ecdsa"
	"crypto/sha256"
	"encoding/json"
	"errors"
	"io/fs"
	"os"
	"strconv"

	"filippo.io/sunlight"
	"filippo.io/sunlight/internal/witness"
	"filippo.io/torchwood"
	ct "github.com/google/certificate-transparency-go"
	"golang.org/x/mod/sumdb/note"
	"golang.org/x/mod/sumdb/tlog"
)

// ---------------------------------------------------------------------------
// C18 (second mechanism) — the size that guards the right edge is exactly the size of the published
// checkpoint: logSize (signature, origin) and mirroredLogSize (origin hash) over a model directory.
// ---------------------------------------------------------------------------

var verifC18Files map[string][]byte
var verifC18Keys map[string]*ecdsa.PrivateKey
var verifC18Info logInfo

// ReadFile makes the model root an fs.ReadFileFS: fs.ReadFile(root.FS(), name) reads the model files.
func (verifRootFS) ReadFile(name string) ([]byte, error) {
	b, ok := verifC18Files[name]
	if !ok {
		return nil, fs.ErrNotExist
	}
	return b, nil
}

//verif:stub encoding/json.Unmarshal
func verifStubJSONUnmarshalC18(data []byte, v any) error {
	if x, ok := v.(*logInfo); ok && len(data) > 0 {
		*x = verifC18Info
		return nil
	}
	return errors.New("malformed JSON")
}

var _ = json.Unmarshal

//verif:stub crypto/x509.ParsePKIXPublicKey
func verifStubParsePKIXC18(der []byte) (any, error) {
	k, ok := verifC18Keys[string(der)]
	if !ok {
		return nil, errors.New("x509: malformed public key")
	}
	return k.Public(), nil
}

//verif:stub github.com/google/certificate-transparency-go.SerializeSTHSignatureInput
func verifStubSerializeSTHC18(sth ct.SignedTreeHead) ([]byte, error) {
	b := []byte{0, 1}
	for s := 56; s >= 0; s -= 8 {
		b = append(b, byte(sth.Timestamp>>uint(s)))
	}
	for s := 56; s >= 0; s -= 8 {
		b = append(b, byte(sth.TreeSize>>uint(s)))
	}
	return append(b, sth.SHA256RootHash[:]...), nil
}

func c18SignLog(name string, key *ecdsa.PrivateKey, n int64, root tlog.Hash, ts int64) []byte {
	sth, _ := verifStubSerializeSTHC18(ct.SignedTreeHead{Version: ct.V1, TreeSize: uint64(n), Timestamp: uint64(ts), SHA256RootHash: ct.SHA256Hash(root)})
	digest := sha256.Sum256(sth)
	body, err := ecdsa.SignASN1(nil, key, digest[:])
	if err != nil {
		panic(err)
	}
	blob := append([]byte{4, 3, byte(len(body) >> 8), byte(len(body))}, body...)
	signer, err := sunlight.NewRFC6962InjectedSigner(name, key.Public(), blob, ts)
	if err != nil {
		panic("injected signer: " + err.Error())
	}
	signed, err := note.Sign(&note.Note{Text: torchwood.Checkpoint{Origin: name, Tree: tlog.Tree{N: n, Hash: root}}.String()}, signer)
	if err != nil {
		panic("note.Sign: " + err.Error())
	}
	return signed
}

// c18Sizes: tree sizes around every boundary that matters to cleanDir's right-edge guard.
var c18Sizes = []int64{0, 1, 255, 256, 257, 511, 512, 65535, 65536, 65537, 16777215, 16777216, 1<<32 - 1, 1 << 32, 1<<56 - 1, 1<<62 + 255}

// VerifC18Size: the size used by the garbage collector is exactly the size stated by the published
// checkpoint (never more, which would turn right-edge partials into removable ones), and a checkpoint
// that does not verify under the log's own metadata (key, origin / origin hash) yields an error.
// mirror = 0: logSize; mirror = 1: mirroredLogSize. The size is one of c18Sizes.
func VerifC18Size(mirror int) {
	verifC18Files = map[string][]byte{}
	verifC18Keys = map[string]*ecdsa.PrivateKey{}
	n := c18Sizes[verifConcretize(verifChoice("size", len(c18Sizes)))]
	var root tlog.Hash
	root[0] = 9
	name := "log.example/2027h1"
	origin := name
	if verifNondetBool("foreign-origin") {
		origin = "other.example/log"
	}
	if mirror == 1 {
		cp := torchwood.Checkpoint{Origin: origin, Tree: tlog.Tree{N: n, Hash: root}}.String()
		verifC18Files["checkpoint"] = []byte(cp + "\n— witness.example/mirror AAAA\n")
		got, err := mirroredLogSize(new(os.Root), witness.OriginHash(name))
		if origin != name {
			verifReach("refused")
			verifAssert(err != nil, "a mirror checkpoint of another origin is accepted for this origin's directory")
			return
		}
		verifReach("size")
		verifAssert(err == nil && got == n, "the size used for a mirror is not the size of its published checkpoint ("+strconv.FormatInt(n, 10)+")")
		return
	}
	good, other := verifNewECDSAKey(), verifNewECDSAKey()
	verifC18Keys["der-good"] = good
	signKey := good
	if verifNondetBool("signed-by-other-key") {
		signKey = other
	}
	verifC18Info = logInfo{Name: name, PublicKeyDER: []byte("der-good")}
	verifC18Files["log.v3.json"] = []byte("{json}")
	verifC18Files["checkpoint"] = c18SignLog(origin, signKey, n, root, 1_700_000_000_000)
	got, err := logSize(new(os.Root))
	if origin != name || signKey != good {
		verifReach("refused")
		verifAssert(err != nil, "a checkpoint that does not verify under the log's key and name is used for garbage collection")
		return
	}
	verifReach("size")
	verifAssert(err == nil && got == n, "the size used for a log is not the size of its published checkpoint ("+strconv.FormatInt(n, 10)+")")
}
