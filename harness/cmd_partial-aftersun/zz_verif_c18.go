//go:build verif

package main

import (
	"context"
	"errors"
	"io/fs"
	"os"
	"sort"
	"strings"
	"time"

	"filippo.io/sunlight"
	"filippo.io/torchwood"
)

// ---------------------------------------------------------------------------
// C18 — garbage collection removes only superseded partial tiles
// Model file system (contract): a tree of named nodes; ReadDir lists the children of a directory
// sorted by name; Remove deletes a file or an empty directory; Stat/Open fail on missing paths.
// ---------------------------------------------------------------------------

type verifNode struct {
	dir       bool
	size      int64
	immutable bool
}

var verifFS struct {
	nodes   map[string]*verifNode
	order   []string // insertion order of paths (deterministic iteration)
	removed []string
	unset   []string
	opened  string
}

func verifFSReset() {
	verifFS.nodes = map[string]*verifNode{}
	verifFS.order = nil
	verifFS.removed = nil
	verifFS.unset = nil
}

func verifFSAdd(path string, dir bool, size int64) {
	// parents are created implicitly
	parts := strings.Split(path, "/")
	for i := 1; i < len(parts); i++ {
		p := strings.Join(parts[:i], "/")
		if _, ok := verifFS.nodes[p]; !ok {
			verifFS.nodes[p] = &verifNode{dir: true}
			verifFS.order = append(verifFS.order, p)
		}
	}
	if _, ok := verifFS.nodes[path]; !ok {
		verifFS.order = append(verifFS.order, path)
	}
	verifFS.nodes[path] = &verifNode{dir: dir, size: size, immutable: !dir}
}

type verifInfo struct {
	name string
	n    *verifNode
}

func (i verifInfo) Name() string { return i.name }
func (i verifInfo) Size() int64  { return i.n.size }
func (i verifInfo) Mode() fs.FileMode {
	if i.n.dir {
		return fs.ModeDir | 0o755
	}
	return 0o444
}
func (i verifInfo) ModTime() time.Time { return time.Time{} }
func (i verifInfo) IsDir() bool        { return i.n.dir }
func (i verifInfo) Sys() any           { return nil }

type verifDirEntry struct{ verifInfo }

func (e verifDirEntry) Type() fs.FileMode          { return e.Mode().Type() }
func (e verifDirEntry) Info() (fs.FileInfo, error) { return e.verifInfo, nil }

type verifRootFS struct{}

func (verifRootFS) Open(name string) (fs.File, error) { return nil, errors.New("not used") }

//verif:stub (*os.Root).FS
func verifStubRootFS(r *os.Root) fs.FS { return verifRootFS{} }

//verif:stub io/fs.ReadDir
func verifStubReadDir(fsys fs.FS, name string) ([]fs.DirEntry, error) {
	n, ok := verifFS.nodes[name]
	if !ok {
		return nil, fs.ErrNotExist
	}
	if !n.dir {
		return nil, errors.New("not a directory")
	}
	var names []string
	for _, p := range verifFS.order {
		if _, live := verifFS.nodes[p]; !live {
			continue
		}
		if strings.HasPrefix(p, name+"/") && !strings.Contains(p[len(name)+1:], "/") {
			names = append(names, p[len(name)+1:])
		}
	}
	sort.Strings(names)
	var out []fs.DirEntry
	for _, c := range names {
		out = append(out, verifDirEntry{verifInfo{c, verifFS.nodes[name+"/"+c]}})
	}
	return out, nil
}

//verif:stub (*os.Root).Remove
func verifStubRootRemove(r *os.Root, name string) error {
	n, ok := verifFS.nodes[name]
	if !ok {
		return fs.ErrNotExist
	}
	if n.dir {
		for p := range verifFS.nodes {
			if strings.HasPrefix(p, name+"/") {
				return errors.New("directory not empty")
			}
		}
	} else if n.immutable {
		return errors.New("operation not permitted (immutable file)")
	}
	verifC18CheckRemove(name, n)
	delete(verifFS.nodes, name)
	verifFS.removed = append(verifFS.removed, name)
	return nil
}

//verif:stub (*os.Root).Stat
func verifStubRootStat(r *os.Root, name string) (os.FileInfo, error) {
	n, ok := verifFS.nodes[name]
	if !ok {
		return nil, fs.ErrNotExist
	}
	return verifInfo{name, n}, nil
}

//verif:stub (*os.Root).Open
func verifStubRootOpen(r *os.Root, name string) (*os.File, error) {
	if _, ok := verifFS.nodes[name]; !ok {
		return nil, fs.ErrNotExist
	}
	verifFS.opened = name
	return new(os.File), nil
}

//verif:stub (*os.File).Close
func verifStubFileClose(f *os.File) error { return nil }

//verif:stub filippo.io/sunlight/internal/immutable.Unset
func verifStubImmutableUnset(f *os.File) {
	if n, ok := verifFS.nodes[verifFS.opened]; ok {
		verifC18CheckUnset(verifFS.opened)
		n.immutable = false
		verifFS.unset = append(verifFS.unset, verifFS.opened)
	}
}

var verifC18 struct {
	size    int64 // published tree size (symbolic)
	level   int   // tile level of the directory being cleaned
	witness bool  // torchwood layout (entries/…) instead of the Static CT layout
}

// verifC18TileIndex independently decodes the tile index from a path below the level directory:
// groups "x001/234" -> 1234.
func verifC18TileIndex(rel string) (int64, bool) {
	var n int64
	parts := strings.Split(rel, "/")
	for i, p := range parts {
		if i < len(parts)-1 {
			if len(p) != 4 || p[0] != 'x' {
				return 0, false
			}
			p = p[1:]
		}
		if len(p) != 3 {
			return 0, false
		}
		for _, c := range []byte(p) {
			if c < '0' || c > '9' {
				return 0, false
			}
			n = n*10 + int64(c-'0')
		}
	}
	return n, true
}

// verifC18Superseded is the oracle: the partial tile belongs to tile index n at the level being
// cleaned, and the full tile n lies strictly left of the right edge of the size-`size` tree, i.e.
// (n+1) * 256^(level+1) <= size (levels below 0 count as level 0), evaluated without overflow.
func verifC18Superseded(n int64) bool {
	l := verifC18.level
	if l < 0 {
		l = 0
	}
	if l > 6 {
		return false
	}
	span := int64(1) << (8 * uint(l+1)) // entries covered by one tile at this level
	// (n+1)*span <= size  <=>  n+1 <= size/span  (all non-negative)
	return n+1 <= verifC18.size/span
}

func verifC18CheckRemove(name string, n *verifNode) {
	i := strings.Index(name, ".p")
	verifAssert(i >= 0, "only partial tiles (or their .p directory) are removed: "+name)
	if i < 0 {
		return
	}
	full := name[:i]
	rest := name[i+2:]
	if n.dir {
		verifAssert(rest == "", "a removed directory is a .p directory")
	} else {
		verifAssert(strings.HasPrefix(rest, "/") && !strings.Contains(rest[1:], "/"), "a removed file sits directly inside a .p directory")
	}
	fn, ok := verifFS.nodes[full]
	if n.dir {
		// removing an (empty) .p directory loses no tile data: the full sibling must exist
		verifAssert(ok, "the full tile exists when its .p directory is removed")
	} else {
		verifAssert(ok && !fn.dir && fn.size > 0, "the full tile exists as a non-empty regular file when its partial is removed")
	}
	prefix := "tile/"
	rel := full[len(prefix):]
	rel = rel[strings.Index(rel, "/")+1:]
	idx, okIdx := verifC18TileIndex(rel)
	verifAssert(okIdx, "the removed partial belongs to a well-formed tile path")
	if okIdx {
		verifAssert(verifC18Superseded(idx), "the removed partial lies strictly left of the right edge of the published tree")
	}
}

func verifC18CheckUnset(name string) {
	i := strings.Index(name, ".p/")
	verifAssert(i >= 0, "the immutable flag is cleared only on partial tiles")
	if i < 0 {
		return
	}
	fn, ok := verifFS.nodes[name[:i]]
	verifAssert(ok && !fn.dir && fn.size > 0, "the immutable flag is cleared only when the full tile exists and is non-empty")
}

func verifMaybe(tag, path string, dir bool, size int64) bool {
	if verifNondetBool(tag) {
		verifFSAdd(path, dir, size)
		return true
	}
	return false
}

// VerifC18Clean runs the real cleanDir over a level directory whose contents are a symbolic subset
// of a fixed universe of candidate paths, with a symbolic published tree size.
// levelDir: 0..5 = hash tile level, -1 = data, -2 = names (Static CT layout); layout 1 = witness/mirror layout (entries).
func VerifC18Clean(level, layout int) {
	verifFSReset()
	verifC18.level = level
	verifC18.size = verifNondetInt64("size")
	verifAssume(verifC18.size >= 0)
	var d string
	switch {
	case level >= 0:
		d = "tile/" + string(rune('0'+level))
	case level == -1 && layout == 1:
		d = "tile/entries"
	case level == -1:
		d = "tile/data"
	default:
		d = "tile/names"
	}
	verifFSAdd(d, true, 0)
	// tile 000: full + partials
	verifMaybe("full000", d+"/000", false, 8192)
	if verifNondetBool("p000") {
		verifFSAdd(d+"/000.p", true, 0)
		verifFSAdd(d+"/000.p/5", false, 160)
		verifMaybe("p000w255", d+"/000.p/255", false, 8160)
	}
	// tile 001: full tile possibly empty (crashed upload), partial
	if verifNondetBool("full001") {
		sz := int64(8192)
		if verifNondetBool("full001-empty") {
			sz = 0
		}
		verifFSAdd(d+"/001", false, sz)
	}
	if verifNondetBool("p001") {
		verifFSAdd(d+"/001.p", true, 0)
		verifMaybe("p001w1", d+"/001.p/1", false, 32)
	}
	// a full tile that is a directory by mistake, and a stray file
	verifFSAdd(d+"/README", false, 10)
	verifFSAdd(d+"/000.tmp123", false, 77)
	// nested group x001: tile index 1002
	if verifNondetBool("x001") {
		verifFSAdd(d+"/x001", true, 0)
		verifMaybe("full1002", d+"/x001/002", false, 8192)
		if verifNondetBool("p1002") {
			verifFSAdd(d+"/x001/002.p", true, 0)
			verifMaybe("p1002w77", d+"/x001/002.p/77", false, 2464)
		}
	}
	before := map[string]bool{}
	for p := range verifFS.nodes {
		before[p] = true
	}
	parse := sunlight.ParseTilePath
	if layout == 1 {
		parse = torchwood.ParseTilePath
	}
	err := cleanDir(context.Background(), nil, nil, d, verifC18.size, parse)
	if err != nil {
		verifReach("error")
	} else {
		verifReach("ok")
	}
	if len(verifFS.removed) > 0 {
		verifReach("removed")
	}
	// nothing else was touched: every path that disappeared was reported by Remove, and every
	// surviving node is unchanged in kind
	for p := range before {
		if _, ok := verifFS.nodes[p]; !ok {
			found := false
			for _, r := range verifFS.removed {
				if r == p {
					found = true
				}
			}
			verifAssert(found, "a path disappeared without a Remove call")
		}
	}
	for _, u := range verifFS.unset {
		_, still := verifFS.nodes[u]
		verifAssert(!still || err != nil, "a file made mutable is removed unless the run failed")
	}
	// completeness of the tree at the published size is preserved: full tiles never removed
	for _, r := range verifFS.removed {
		verifAssert(strings.Contains(r, ".p"), "no full tile, stray file or group directory is removed")
	}
}
