//go:build verif

package witness

import (
	"context"
	"errors"
	"strconv"

	"filippo.io/torchwood"
	"golang.org/x/mod/sumdb/note"
	"golang.org/x/mod/sumdb/tlog"
)

// ---------------------------------------------------------------------------
// C14 — the witness cosigns only one append-only history per log
// ---------------------------------------------------------------------------

type hCosigned struct {
	branch int
	n      int64
}

func (f *hFork) request(old int64, branch int, n int64, proofKind, sigKind int) []byte {
	text := torchwood.Checkpoint{Origin: f.origin, Tree: tlog.Tree{N: n, Hash: f.root(branch, n)}}.String()
	key := f.key
	switch sigKind {
	case 1: // same name and key hash, wrong key: the signature does not verify
		key = &hLogKey{name: f.origin, hash: f.key.hash, id: 9}
	case 2: // a key the witness does not know
		key = &hLogKey{name: f.origin, hash: 0x55555555, id: 3}
	}
	signed, err := note.Sign(&note.Note{Text: text}, key)
	if err != nil {
		panic(err)
	}
	body := "old " + strconv.FormatInt(old, 10) + "\n"
	p := f.proof(branch, n, old)
	switch proofKind {
	case 1: // corrupt
		if len(p) > 0 {
			p[0][0] ^= 1
		} else {
			p = append(p, tlog.Hash{1})
		}
	case 2: // empty
		p = nil
	}
	for _, h := range p {
		body += h.String() + "\n"
	}
	return append([]byte(body+"\n"), signed...)
}

// VerifC14History: up to `requests` add-checkpoint requests against a log of `size` leaves forked at
// `forkAt`, each with symbolic old size, new size, branch, proof kind and signature kind; up to
// `faults` lock/storage failures (applied or not); optional witness restart between requests.
// All cosigned checkpoints must lie on one branch with non-decreasing sizes, the recorded state must
// already hold a checkpoint when its cosignature is released, and refusals must carry the right answer.
func VerifC14History(size, forkAt, requests, faults, restart, firstValid int) {
	f := newFork("log.example/fork", size, forkAt)
	w, cfg := newWitnessWorld(faults, f)
	ctx := context.Background()
	wit, err := NewWitness(ctx, cfg)
	if err != nil {
		panic("NewWitness failed")
	}
	var cosigned []hCosigned
	recN, recBranch := int64(0), -1 // reference model of the recorded state: size and branch (-1: common prefix only)
	key := backendKeyForCheckpoint(cfg, f.origin)
	for r := 0; r < requests; r++ {
		if restart == 1 && r > 0 && verifNondetBool("restart") {
			wit, err = NewWitness(ctx, cfg)
			verifAssert(err == nil, "the witness restarts")
			verifReach("restarted")
		}
		var old, n int64
		var proofKind, sigKind int
		branch := verifConcretize(verifChoice("branch", 2))
		if r == 0 && firstValid == 1 {
			// a valid first request that brings the witness to a symbolic size on a symbolic branch
			old = 0
			n = int64(1 + verifConcretize(verifChoice("new", size)))
		} else {
			// old size: the recorded size, one more, or zero; new size: no progress, one more, or the whole log
			switch verifChoice("old", 3) {
			case 0:
				old = recN
			case 1:
				old = recN + 1
			}
			switch verifChoice("new", 4) {
			case 0:
				n = old
			case 1:
				n = old + 1
			case 2:
				n = old - 1
			default:
				n = int64(size)
			}
			if old > int64(size) || n > int64(size) || n < 0 {
				verifAssume(false)
			}
			proofKind = verifConcretize(verifChoice("proof", 3))
			sigKind = verifConcretize(verifChoice("sig", 3))
		}
		req := f.request(old, branch, n, proofKind, sigKind)
		before := len(w.lockHist[key])
		w.armed = true
		cosig, rerr := wit.processAddCheckpointRequest(ctx, req)
		w.armed = false
		// what does the lock store really hold now? (a failed Replace may have been applied)
		if len(w.lockHist[key]) > before {
			recN = n
			if n > int64(forkAt) {
				recBranch = branch
			}
		}
		if rerr == nil {
			verifReach("cosigned")
			verifAssert(len(cosig) > 0, "a successful request returns cosignatures")
			verifAssert(len(w.lockHist[key]) == before+1, "a cosignature is released without the new checkpoint having been recorded")
			cosigned = append(cosigned, hCosigned{branch, n})
			verifAssert(sigKind == 0, "a checkpoint without a valid log signature is cosigned")
			// the cosignature lines are by the witness keys only
			lines := 0
			for _, c := range cosig {
				if c == '\n' {
					lines++
				}
			}
			verifAssert(lines == 2, "exactly the two witness cosignature lines are returned")
			continue
		}
		verifAssert(len(cosig) == 0, "a refused request leaks cosignatures")
		var ce *conflictError
		switch {
		case errors.As(rerr, &ce):
			verifReach("409")
			verifAssert(sigKind == 0, "409 for a request whose signature is not valid")
			verifAssert(ce.known != old, "409 although the old size matches the recorded size")
		case rerr == errInvalidSignature:
			verifReach("403")
			verifAssert(sigKind != 0, "403 for a validly signed checkpoint")
		case rerr == errProof:
			verifReach("422")
			verifAssert(sigKind == 0, "422 for a request whose signature is not valid")
		case rerr == errBadRequest:
			verifReach("400")
			verifAssert(old > n, "400 for a well-formed request")
		case rerr == errUnknownLog:
			verifFail("404 for a known log")
		default:
			verifReach("500")
			verifAssert(w.faults < faults, "an internal error without any storage fault")
		}
	}
	_ = recN
	_ = recBranch
	// all cosigned checkpoints form one chain: sizes never decrease, and beyond the fork point one branch only
	last := int64(0)
	chainBranch := -1
	for _, c := range cosigned {
		verifAssert(c.n >= last, "a smaller tree is cosigned after a larger one")
		last = c.n
		if c.n > int64(forkAt) {
			verifAssert(chainBranch == -1 || chainBranch == c.branch, "the witness cosigned both sides of a fork")
			chainBranch = c.branch
		}
	}
	// the same holds for everything that became public with a cosignature
	pubBranch := -1
	for _, u := range w.uploaded {
		for b := 0; b < 2; b++ {
			for k := int64(forkAt) + 1; k <= int64(size); k++ {
				want := torchwood.Checkpoint{Origin: f.origin, Tree: tlog.Tree{N: k, Hash: f.root(b, k)}}.String()
				if len(u) >= len(want) && string(u[:len(want)]) == want {
					verifAssert(pubBranch == -1 || pubBranch == b, "cosigned checkpoints of both sides of a fork became public")
					pubBranch = b
				}
			}
		}
	}
	verifReach("done")
}

// VerifC14Unknown: a checkpoint for an origin the witness does not know is answered 404.
func VerifC14Unknown() {
	f := newFork("log.example/fork", 3, 2)
	g := newFork("log.example/other", 3, 2)
	_, cfg := newWitnessWorld(0, f)
	wit, err := NewWitness(context.Background(), cfg)
	if err != nil {
		panic("NewWitness failed")
	}
	cosig, rerr := wit.processAddCheckpointRequest(context.Background(), g.request(0, 0, 2, 0, 0))
	verifAssert(rerr == errUnknownLog && len(cosig) == 0, "an unknown log is answered 404")
	verifReach("404")
}
