//go:build verif

package witness

import (
	"bytes"
	"context"
	"crypto/cipher"
	"crypto/ed25519"
	"crypto/sha256"
	"errors"
	"strings"

	"filippo.io/sunlight/internal/ctlog"
	"github.com/prometheus/client_golang/prometheus"
	"golang.org/x/mod/sumdb/tlog"
)

// ===========================================================================
// The "witness world" (DESIGN.md §3.2): lock store and object storage with fault injection,
// an adversarial log with a fork, ideal log signatures; monitors at the instant of each effect.
// ===========================================================================

type hWorld struct {
	lock     map[[32]byte][]byte
	lockHist map[[32]byte][][]byte
	objects  map[string][]byte
	faults   int
	armed    bool
	trace    []string
	logs     map[string]logMeta // stored witness configuration
	cfg      *Config
	uploaded [][]byte // every cosigned checkpoint that became public
}

var hw *hWorld

var hErrFault = errors.New("injected storage fault")

func (w *hWorld) outcome(op string) int {
	if !w.armed || w.faults == 0 || !verifNondetBool("fault") {
		return 0
	}
	w.faults--
	if verifNondetBool("fault-applied") {
		verifTrace("FAULT (applied) " + op)
		return 2
	}
	verifTrace("FAULT (not applied) " + op)
	return 1
}

type hLocked struct {
	key [32]byte
	b   []byte
}

func (l *hLocked) Bytes() []byte { return l.b }

type hLock struct{ w *hWorld }

func (l *hLock) Fetch(ctx context.Context, logID [sha256.Size]byte) (ctlog.LockedCheckpoint, error) {
	verifTrace("lock-fetch")
	b, ok := l.w.lock[logID]
	if !ok {
		return nil, ctlog.ErrLogNotFound
	}
	return &hLocked{key: logID, b: append([]byte{}, b...)}, nil
}

func (l *hLock) Replace(ctx context.Context, old ctlog.LockedCheckpoint, new []byte) (ctlog.LockedCheckpoint, error) {
	verifTrace("lock-replace")
	o := old.(*hLocked)
	out := l.w.outcome("lock-replace")
	if out != 1 {
		cur, ok := l.w.lock[o.key]
		if !ok || !bytes.Equal(cur, o.b) {
			return nil, errors.New("CAS conflict")
		}
		l.w.lock[o.key] = append([]byte{}, new...)
		l.w.lockHist[o.key] = append(l.w.lockHist[o.key], append([]byte{}, new...))
	}
	if out != 0 {
		return nil, hErrFault
	}
	return &hLocked{key: o.key, b: append([]byte{}, new...)}, nil
}

func (l *hLock) Create(ctx context.Context, logID [sha256.Size]byte, new []byte) error {
	verifTrace("lock-create")
	if _, ok := l.w.lock[logID]; ok {
		return errors.New("already exists")
	}
	l.w.lock[logID] = append([]byte{}, new...)
	return nil
}

type hBackend struct{ w *hWorld }

func (b *hBackend) Upload(ctx context.Context, key string, data []byte, opts *ctlog.UploadOptions) error {
	verifTrace("upload " + key)
	out := b.w.outcome("upload")
	if out != 1 {
		if strings.HasSuffix(key, "/checkpoint") && !strings.Contains(key, "mirror") {
			// the instant a cosigned checkpoint becomes public: it must already be the recorded one
			recorded := false
			for _, v := range b.w.lock {
				if bytes.Equal(v, data) {
					recorded = true
				}
			}
			verifAssert(recorded, "a cosigned checkpoint is published before it is recorded in the lock store")
			b.w.uploaded = append(b.w.uploaded, append([]byte{}, data...))
		}
		b.w.objects[key] = append([]byte{}, data...)
	}
	if out != 0 {
		return hErrFault
	}
	return nil
}

func (b *hBackend) Fetch(ctx context.Context, key string) ([]byte, error) {
	verifTrace("fetch " + key)
	d, ok := b.w.objects[key]
	if !ok {
		return nil, errors.New("not found")
	}
	return append([]byte{}, d...), nil
}

func (b *hBackend) Discard(ctx context.Context, key string) error {
	delete(b.w.objects, key)
	return nil
}

func (b *hBackend) Metrics() []prometheus.Collector { return nil }

// ---- ideal log signatures (a MAC keyed by the key id; the adversary is the harness itself) ----

type hLogKey struct {
	name string
	hash uint32
	id   byte
}

func (k *hLogKey) Name() string    { return k.name }
func (k *hLogKey) KeyHash() uint32 { return k.hash }
func (k *hLogKey) mac(msg []byte) []byte {
	h := sha256.Sum256(append([]byte{'L', k.id}, msg...))
	return h[:12]
}
func (k *hLogKey) Sign(msg []byte) ([]byte, error) { return k.mac(msg), nil }
func (k *hLogKey) Verify(msg, sig []byte) bool     { return bytes.Equal(sig, k.mac(msg)) }

// ---- stubs ----

//verif:stub encoding/json.Unmarshal
func verifStubJSONUnmarshal(data []byte, v any) error {
	if sc, ok := v.(*storedConfig); ok {
		sc.Logs = map[string]logMeta{}
		for k, m := range hw.logs {
			sc.Logs[k] = m
		}
		return nil
	}
	return errors.New("json model: unsupported type")
}

type hAEAD struct{}

func (hAEAD) NonceSize() int { return 24 }
func (hAEAD) Overhead() int  { return 16 }
func (hAEAD) Seal(dst, nonce, plaintext, ad []byte) []byte {
	tag := sha256.Sum256(append(append([]byte("AEAD"), ad...), plaintext...))
	out := append(dst, plaintext...)
	return append(out, tag[:16]...)
}
func (hAEAD) Open(dst, nonce, ciphertext, ad []byte) ([]byte, error) {
	if len(ciphertext) < 16 {
		return nil, errors.New("aead: too short")
	}
	pt := ciphertext[:len(ciphertext)-16]
	tag := sha256.Sum256(append(append([]byte("AEAD"), ad...), pt...))
	if !bytes.Equal(tag[:16], ciphertext[len(ciphertext)-16:]) {
		return nil, errors.New("aead: authentication failed")
	}
	return append(dst, pt...), nil
}

//verif:stub filippo.io/sunlight/internal/xaes256gcm.New
func verifStubXAESNew(key []byte) (cipher.AEAD, error) { return hAEAD{}, nil }

// ---- the adversarial log: two histories sharing a prefix ----

type hFork struct {
	origin string
	key    *hLogKey
	stored [2][]tlog.Hash // stored hashes of branch A and B
	leaves [2][][]byte
}

type hReader []tlog.Hash

func (r hReader) ReadHashes(idx []int64) ([]tlog.Hash, error) {
	out := make([]tlog.Hash, len(idx))
	for i, x := range idx {
		out[i] = r[x]
	}
	return out, nil
}

func newFork(origin string, size, forkAt int) *hFork {
	f := &hFork{origin: origin, key: &hLogKey{name: origin, hash: 0x4c4f4701, id: 1}}
	for b := 0; b < 2; b++ {
		for i := 0; i < size; i++ {
			leaf := []byte{'l', byte(i)}
			if b == 1 && i >= forkAt {
				leaf = []byte{'f', byte(i)}
			}
			f.leaves[b] = append(f.leaves[b], leaf)
			hs, err := tlog.StoredHashes(int64(i), leaf, hReader(f.stored[b]))
			if err != nil {
				panic(err)
			}
			f.stored[b] = append(f.stored[b], hs...)
		}
	}
	return f
}

func (f *hFork) root(branch int, n int64) tlog.Hash {
	h, err := tlog.TreeHash(n, hReader(f.stored[branch]))
	if err != nil {
		panic(err)
	}
	return h
}

func (f *hFork) proof(branch int, n, old int64) tlog.TreeProof {
	if old == 0 || old > n {
		return nil
	}
	p, err := tlog.ProveTree(n, old, hReader(f.stored[branch]))
	if err != nil {
		panic(err)
	}
	return p
}

func newWitnessWorld(faults int, origins ...*hFork) (*hWorld, *Config) {
	w := &hWorld{lock: map[[32]byte][]byte{}, lockHist: map[[32]byte][][]byte{}, objects: map[string][]byte{}, faults: faults, logs: map[string]logMeta{}}
	hw = w
	seed := make([]byte, ed25519.SeedSize)
	seed[0] = 7
	cfg := &Config{Name: "witness.example/w", KeyEd25519: ed25519.NewKeyFromSeed(seed), KeyMLDSA44: verifNewMLDSAKey(),
		MirrorName: "witness.example/mirror", KeyMirror: verifNewMLDSAKey(), Backend: &hBackend{w}, Lock: &hLock{w}}
	w.cfg = cfg
	w.lock[backendKeyForConfig(cfg)] = []byte("{}")
	for _, f := range origins {
		w.logs[f.origin] = logMeta{Verifiers: []serializableVerifier{{vkey: "vkey", Verifier: f.key}}, Mirror: true}
		w.lock[backendKeyForCheckpoint(cfg, f.origin)] = []byte{}
		w.lock[backendKeyForMirrorCheckpoint(cfg, f.origin)] = []byte{}
	}
	return w, cfg
}
