//go:build verif

package witness

import (
	"bytes"
	"compress/gzip"
	"context"
	"errors"
	"io"
	"strings"

	"filippo.io/torchwood"
	"golang.org/x/mod/sumdb/tlog"
)

// ---------------------------------------------------------------------------
// C15 — a mirror cosignature implies a complete, correct, servable copy
// ---------------------------------------------------------------------------

// --- gzip contract (same as in the ctlog world): compress(x) = "GZ" ‖ x ---

type hGzipW struct{ w io.Writer }
type hGzipR struct {
	data []byte
	pos  int
}

var hGzipWriters = map[*gzip.Writer]*hGzipW{}
var hGzipReaders = map[*gzip.Reader]*hGzipR{}

//verif:stub compress/gzip.NewWriter
func verifStubGzipNewWriter(w io.Writer) *gzip.Writer {
	z := new(gzip.Writer)
	hGzipWriters[z] = &hGzipW{w: w}
	w.Write([]byte("GZ"))
	return z
}

//verif:stub (*compress/gzip.Writer).Write
func verifStubGzipWrite(z *gzip.Writer, p []byte) (int, error) { return hGzipWriters[z].w.Write(p) }

//verif:stub (*compress/gzip.Writer).Close
func verifStubGzipClose(z *gzip.Writer) error { return nil }

//verif:stub compress/gzip.NewReader
func verifStubGzipNewReader(r io.Reader) (*gzip.Reader, error) {
	b, err := io.ReadAll(r)
	if err != nil {
		return nil, err
	}
	if len(b) < 2 || b[0] != 'G' || b[1] != 'Z' {
		return nil, errors.New("gzip: invalid header")
	}
	z := new(gzip.Reader)
	hGzipReaders[z] = &hGzipR{data: b[2:]}
	return z, nil
}

//verif:stub (*compress/gzip.Reader).Read
func verifStubGzipRead(z *gzip.Reader, p []byte) (int, error) {
	r := hGzipReaders[z]
	if r.pos >= len(r.data) {
		return 0, io.EOF
	}
	n := copy(p, r.data[r.pos:])
	r.pos += n
	return n, nil
}

// hMirrorCheck is the monitor run at the instant a mirror checkpoint takes effect in the lock store:
// storage must already serve the whole size-N tree with exactly the log's first N entries.
func hMirrorCheck(w *hWorld, f *hFork, raw []byte, pendingN int64, lastN *int64) {
	text := string(raw)
	sep := strings.Index(text, "\n\n")
	verifAssert(sep > 0, "the mirror checkpoint is not a signed note")
	if sep <= 0 {
		return
	}
	c, err := torchwood.ParseCheckpoint(text[:sep+1])
	verifAssert(err == nil && c.Origin == f.origin, "the mirror checkpoint is malformed")
	if err != nil {
		return
	}
	n := c.N
	verifTraceInt("MIRROR COMMIT size", n)
	verifAssert(n >= *lastN, "the mirror checkpoint size decreased")
	*lastN = n
	verifAssert(n <= pendingN, "the mirror checkpoint is ahead of the witness's pending checkpoint")
	verifAssert(n <= int64(len(f.leaves[0])) && c.Hash == f.root(0, n), "the mirror checkpoint root is not the log's tree of that size")
	if n > int64(len(f.leaves[0])) {
		return
	}
	prefix := "mirror/" + OriginHash(f.origin) + "/"
	// entry bundles
	for start := int64(0); start < n; start += 256 {
		width := n - start
		if width > 256 {
			width = 256
		}
		var got []byte
		found := false
		for _, wd := range []int64{width, 256} {
			if d, ok := w.objects[prefix+torchwood.TilePath(tlog.Tile{H: 8, L: -1, N: start / 256, W: int(wd)})]; ok && !found {
				found = true
				got = d
			}
		}
		verifAssert(found, "an entry bundle of the mirrored tree is missing")
		if !found {
			continue
		}
		verifAssert(len(got) >= 2 && got[0] == 'G' && got[1] == 'Z', "an entry bundle is not compressed")
		if len(got) < 2 {
			continue
		}
		rest := got[2:]
		for i := start; i < start+width; i++ {
			e, r, err := torchwood.ReadTileEntry(rest)
			verifAssert(err == nil && verifBytesEq(e, f.leaves[0][i]), "a served entry is not the log's entry")
			if err != nil {
				break
			}
			rest = r
		}
	}
	// hash tiles of every level
	for level := 0; level < 4; level++ {
		nodes := n >> (8 * uint(level))
		for t := int64(0); t*256 < nodes; t++ {
			width := nodes - t*256
			if width > 256 {
				width = 256
			}
			want, err := tlog.ReadTileData(tlog.Tile{H: 8, L: level, N: t, W: int(width)}, hReader(f.stored[0]))
			if err != nil {
				panic("oracle tile")
			}
			found := false
			for _, wd := range []int64{width, 256} {
				if d, ok := w.objects[prefix+torchwood.TilePath(tlog.Tile{H: 8, L: level, N: t, W: int(wd)})]; ok && !found {
					found = true
					verifAssert(len(d) >= len(want) && verifBytesEq(d[:len(want)], want), "a served hash tile does not hold the tree's hashes")
				}
			}
			verifAssert(found, "a hash tile of the mirrored tree is missing")
		}
	}
}

// hEntriesBody builds the add-entries packages for [start, end) against the tree of size n.
// wrongEntry / wrongProof corrupt the first package; cut truncates the body after `cut` bytes (-1: whole).
func (f *hFork) entriesBody(n, start, end int64, wrongEntry, wrongProof bool) []byte {
	var body []byte
	roundedStart := start - start%256
	for tileStart := roundedStart; tileStart < end; tileStart += 256 {
		s, e := tileStart, tileStart+256
		if s < start {
			s = start
		}
		if e > end {
			e = end
		}
		for i := s; i < e; i++ {
			entry := f.leaves[0][i]
			if wrongEntry && i == s {
				entry = []byte{'X', byte(i)}
			}
			body = append(body, byte(len(entry)>>8), byte(len(entry)))
			body = append(body, entry...)
		}
		proof, err := torchwood.ProveSubtree(n, tileStart, e, hReader(f.stored[0]))
		if err != nil {
			panic("ProveSubtree failed")
		}
		if wrongProof {
			if len(proof) > 0 {
				proof[0][0] ^= 1
			} else {
				proof = append(proof, tlog.Hash{7})
			}
		}
		body = append(body, byte(len(proof)))
		for _, h := range proof {
			body = append(body, h[:]...)
		}
	}
	return body
}

// VerifC15Mirror: a log of `size` entries; the witness learns checkpoint p1 (and, with twoCheckpoints,
// later p2 = size); up to `requests` add-entries requests with symbolic (start, end, ticket kind,
// corruption, truncation), lock/storage faults, and an optional restart between requests.
func VerifC15Mirror(size, requests, faults, restart int) {
	f := newFork("log.example/mirrored", size, size) // no fork: branch 0 only
	w, cfg := newWitnessWorld(faults, f)
	ctx := context.Background()
	wit, err := NewWitness(ctx, cfg)
	if err != nil {
		panic("NewWitness failed")
	}
	mirrorKey := backendKeyForMirrorCheckpoint(cfg, f.origin)
	pendingKey := backendKeyForCheckpoint(cfg, f.origin)
	pendingN := int64(0)
	lastMirror := int64(0)
	seen := 0
	check := func() {
		h := w.lockHist[mirrorKey]
		for ; seen < len(h); seen++ {
			hMirrorCheck(w, f, h[seen], pendingN, &lastMirror)
		}
	}
	advance := func(old, n int64) {
		_, err := wit.processAddCheckpointRequest(ctx, f.request(old, 0, n, 0, 0))
		if err != nil {
			panic("add-checkpoint failed in setup")
		}
		pendingN = n
	}
	p1 := int64(1 + verifConcretize(verifChoice("first-checkpoint", size)))
	if size > 16 {
		// large logs: sizes and ranges around the tile boundary only
		p1 = c15Boundary("first-checkpoint", size)
		verifAssume(p1 >= 1)
	}
	advance(0, p1)
	_ = pendingKey
	var ticket []byte
	for r := 0; r < requests; r++ {
		if restart == 1 && r > 0 && verifNondetBool("restart") {
			wit, err = NewWitness(ctx, cfg)
			verifAssert(err == nil, "the witness restarts")
			verifReach("restarted")
			ticket = nil // tickets are sealed with a per-process key
		}
		if r > 0 && pendingN < int64(size) && verifNondetBool("log-grows") {
			advance(pendingN, int64(size))
		}
		start := int64(verifConcretize(verifChoice("start", size+1)))
		end := int64(verifConcretize(verifChoice("end", size+1)))
		if size > 16 {
			start, end = c15Boundary("start", size), c15Boundary("end", size)
		}
		if end < start {
			verifAssume(false)
		}
		wrongEntry := verifNondetBool("wrong-entry")
		wrongProof := verifNondetBool("wrong-proof")
		useTicket := ticket != nil && verifNondetBool("use-ticket")
		var tk []byte
		if useTicket {
			tk = ticket
			if verifNondetBool("forged-ticket") {
				tk = append([]byte{}, ticket...)
				tk[len(tk)-1] ^= 1
			}
		}
		w.armed = true
		pending, merr := wit.processAddEntriesMetadata(ctx, f.origin, start, end, tk)
		if merr != nil {
			w.armed = false
			var mc *mirrorConflictError
			if errors.As(merr, &mc) {
				verifReach("409")
				ticket = mc.ticket
			} else {
				verifReach("metadata-refused")
			}
			check()
			continue
		}
		verifAssert(pending.N == end, "the resolved checkpoint does not have the upload end as its size")
		verifAssert(end <= pendingN, "a checkpoint larger than the pending one was resolved")
		body := f.entriesBody(pending.N, start, end, wrongEntry, wrongProof)
		if len(body) > 0 && verifNondetBool("truncated") {
			body = body[:verifConcretize(verifChoice("cut", len(body)))]
		}
		perr := wit.processAddEntriesPackages(ctx, bytes.NewReader(body), start, end, pending)
		if perr != nil {
			w.armed = false
			verifReach("packages-refused")
			check()
			continue
		}
		sigs, cerr := wit.processAddEntriesCommit(ctx, pending)
		w.armed = false
		check()
		if cerr != nil {
			verifReach("commit-refused")
			verifAssert(len(sigs) == 0, "a refused commit leaks signatures")
			continue
		}
		verifReach("mirror-cosigned")
		verifAssert(len(sigs) > 0, "a successful commit returns the mirror cosignature")
		verifAssert(!wrongEntry && !wrongProof || start == end, "a mirror cosignature although entries or proofs were wrong")
		verifAssert(lastMirror == end, "signatures were returned although the mirror checkpoint was not recorded first")
	}
	check()
	verifReach("done")
}

// c15Boundary picks one of 0, 1, 255, 256, 257, size (those that are <= size).
func c15Boundary(tag string, size int) int64 {
	set := []int64{0, 1, 255, 256, 257, int64(size)}
	v := set[verifConcretize(verifChoice(tag, len(set)))]
	if v > int64(size) {
		verifAssume(false)
	}
	return v
}

// VerifC15Cut: the mirror checkpoint is committed at a mid-tile size cutN that is behind next_entry.
// Script: the witness learns checkpoint cutN; an add-entries request that conflicts yields a ticket
// for it; the log grows to `size`; an upload of [0, size) is processed but interrupted before its
// commit; then up to two commits at cutN through the ticket (start = end = cutN), with `faults`
// storage/lock failures. Every mirror checkpoint that takes effect is checked by the monitor.
func VerifC15Cut(size, cutN, faults int) {
	f := newFork("log.example/mirrored", size, size)
	w, cfg := newWitnessWorld(faults, f)
	ctx := context.Background()
	wit, err := NewWitness(ctx, cfg)
	if err != nil {
		panic("NewWitness failed")
	}
	mirrorKey := backendKeyForMirrorCheckpoint(cfg, f.origin)
	lastMirror := int64(0)
	seen := 0
	check := func() {
		h := w.lockHist[mirrorKey]
		for ; seen < len(h); seen++ {
			hMirrorCheck(w, f, h[seen], int64(size), &lastMirror)
		}
	}
	if _, err := wit.processAddCheckpointRequest(ctx, f.request(0, 0, int64(cutN), 0, 0)); err != nil {
		panic("setup: add-checkpoint")
	}
	// a request for a range the witness cannot resolve: 409 with a ticket for the pending checkpoint
	_, merr := wit.processAddEntriesMetadata(ctx, f.origin, 0, int64(cutN)-1, nil)
	var mc *mirrorConflictError
	if !errors.As(merr, &mc) {
		panic("setup: expected a mirror conflict with a ticket")
	}
	ticket := mc.ticket
	if _, err := wit.processAddCheckpointRequest(ctx, f.request(int64(cutN), 0, int64(size), 0, 0)); err != nil {
		panic("setup: add-checkpoint growth")
	}
	pending, merr := wit.processAddEntriesMetadata(ctx, f.origin, 0, int64(size), nil)
	if merr != nil {
		panic("setup: metadata for the full upload")
	}
	if err := wit.processAddEntriesPackages(ctx, bytes.NewReader(f.entriesBody(int64(size), 0, int64(size), false, false)), 0, int64(size), pending); err != nil {
		panic("setup: packages")
	}
	// (the client disconnects before the commit)
	for attempt := 0; attempt < 2; attempt++ {
		w.armed = true
		resolved, merr := wit.processAddEntriesMetadata(ctx, f.origin, int64(cutN), int64(cutN), ticket)
		if merr != nil {
			w.armed = false
			verifReach("metadata-refused")
			continue
		}
		verifAssert(resolved.N == int64(cutN), "the ticket does not resolve to its checkpoint")
		if err := wit.processAddEntriesPackages(ctx, bytes.NewReader(nil), int64(cutN), int64(cutN), resolved); err != nil {
			w.armed = false
			continue
		}
		sigs, cerr := wit.processAddEntriesCommit(ctx, resolved)
		w.armed = false
		check()
		if cerr != nil {
			verifReach("commit-failed")
			verifAssert(len(sigs) == 0, "a failed commit leaks signatures")
			continue
		}
		verifReach("cut-cosigned")
		verifAssert(lastMirror == int64(cutN), "signatures without a recorded mirror checkpoint")
	}
	// after a restart, uploads resume from the mirror checkpoint
	wit, err = NewWitness(ctx, cfg)
	verifAssert(err == nil, "the witness restarts")
	if lastMirror == int64(cutN) {
		pending, merr := wit.processAddEntriesMetadata(ctx, f.origin, int64(cutN), int64(size), nil)
		verifAssert(merr == nil, "after a restart the upload cannot resume from the mirror checkpoint")
		if merr == nil {
			perr := wit.processAddEntriesPackages(ctx, bytes.NewReader(f.entriesBody(int64(size), int64(cutN), int64(size), false, false)), int64(cutN), int64(size), pending)
			verifAssert(perr == nil, "after a restart the remaining entries are not accepted")
			if perr == nil {
				_, cerr := wit.processAddEntriesCommit(ctx, pending)
				verifAssert(cerr == nil, "after a restart the mirror cannot catch up")
				check()
				verifReach("resumed")
			}
		}
	}
	verifReach("done")
}
