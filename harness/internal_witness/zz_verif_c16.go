//go:build verif

package witness

import (
	"context"
	"strconv"
	"strings"

	"filippo.io/torchwood"
	"golang.org/x/mod/sumdb/note"
	"golang.org/x/mod/sumdb/tlog"
)

// ---------------------------------------------------------------------------
// C16 — subtree cosignatures are issued only for subtrees of a cosigned tree
// ---------------------------------------------------------------------------

// refValidSubtree: [start, end) is a subtree iff it is non-empty and its start is a multiple of the
// smallest power of two that is at least its width.
func refValidSubtree(start, end int64) bool {
	if start < 0 || end <= start {
		return false
	}
	w := end - start
	p := int64(1)
	for p < w {
		p <<= 1
	}
	return start%p == 0
}

// VerifC16Subtree: one sign-subtree request over a log of `size` leaves (branch A of a fork) with a
// symbolic (start, end), a symbolic checkpoint size, a symbolic combination of signatures on the
// presented checkpoint (signers: bit 0 witness ML-DSA, bit 1 mirror ML-DSA, bit 2 witness Ed25519,
// bit 3 a foreign cosigner, bit 4 a forged line with the witness's name and key hash, bits 5/6 a line under the
// mirror's / witness's name made with a foreign key), and a correct
// or wrong subtree hash / proof / checkpoint root.
func VerifC16Subtree(size int) {
	f := newFork("log.example/fork", size, 1)
	_, cfg := newWitnessWorld(0, f)
	ctx := context.Background()
	wit, err := NewWitness(ctx, cfg)
	if err != nil {
		panic("NewWitness failed")
	}
	n := int64(1 + verifConcretize(verifChoice("checkpoint-size", size)))
	start := int64(verifConcretize(verifChoice("start", size+1)))
	end := int64(verifConcretize(verifChoice("end", size+2)))
	if end < start {
		verifAssume(false) // negative widths are malformed requests: one representative (end == start) is kept
	}
	// signer combinations: none, witness, mirror, both, witness+Ed25519, foreign only, forged only, mirror+forged, Ed25519 only
	// witness + a line under the mirror's name by a foreign key, mirror + a line under the witness's name by a
	// foreign key, both impostor lines only
	signers := []int{0, 1, 2, 3, 5, 8, 16, 18, 4, 33, 66, 96}[verifConcretize(verifChoice("signers", 12))]
	hashKind := verifConcretize(verifChoice("hash", 3))   // 0 right, 1 wrong subtree hash, 2 hash of the other branch
	proofKind := verifConcretize(verifChoice("proof", 2)) // 0 right, 1 corrupted
	rootKind := 0

	branch := 0
	if rootKind == 1 {
		branch = 1
	}
	text := torchwood.Checkpoint{Origin: f.origin, Tree: tlog.Tree{N: n, Hash: f.root(branch, n)}}.String()
	var ss []note.Signer
	ss = append(ss, f.key)
	if signers&1 != 0 {
		ss = append(ss, wit.s2)
	}
	if signers&2 != 0 {
		ss = append(ss, wit.sm)
	}
	if signers&4 != 0 {
		ss = append(ss, wit.s1)
	}
	if signers&8 != 0 {
		foreign, err := torchwood.NewCosignatureSigner("foreign.example/w", verifNewMLDSAKey())
		if err != nil {
			panic(err)
		}
		ss = append(ss, foreign)
	}
	if signers&32 != 0 {
		// a valid cosignature line carrying the mirror's NAME but made with a foreign key (other key hash)
		imp, err := torchwood.NewCosignatureSigner(wit.sm.Name(), verifNewMLDSAKey())
		if err != nil {
			panic(err)
		}
		ss = append(ss, imp)
	}
	if signers&64 != 0 {
		imp, err := torchwood.NewCosignatureSigner(wit.s2.Name(), verifNewMLDSAKey())
		if err != nil {
			panic(err)
		}
		ss = append(ss, imp)
	}
	signed, err := note.Sign(&note.Note{Text: text}, ss...)
	if err != nil {
		panic("note.Sign failed")
	}
	if signers&16 != 0 {
		// a line with the witness's ML-DSA name and key hash whose signature is for another checkpoint
		otherText := torchwood.Checkpoint{Origin: f.origin, Tree: tlog.Tree{N: n, Hash: f.root(1-branch, n)}}.String()
		other, err := note.Sign(&note.Note{Text: otherText}, wit.s2)
		if err != nil {
			panic("note.Sign failed")
		}
		lines, _ := splitSignatures(other, wit.s2.Name())
		signed = append(signed, lines...)
		if f.root(1-branch, n) == f.root(branch, n) {
			// below the fork point both branches are the same tree: the extra line is a genuine cosignature
			signers = signers&^16 | 1
		}
	}
	// subtree hash and proof computed on the branch the checkpoint commits to
	validRange := refValidSubtree(start, end) && end <= n
	var sh tlog.Hash
	var proof torchwood.SubtreeProof
	if validRange {
		sh, err = torchwood.SubtreeHash(start, end, hReader(f.stored[branch]))
		if err != nil {
			panic("SubtreeHash failed")
		}
		proof, err = torchwood.ProveSubtree(n, start, end, hReader(f.stored[branch]))
		if err != nil {
			panic("ProveSubtree failed")
		}
	}
	rightHash := sh
	switch hashKind {
	case 1:
		sh[0] ^= 1
	case 2:
		if validRange {
			sh, _ = torchwood.SubtreeHash(start, end, hReader(f.stored[1-branch]))
		}
	}
	if proofKind == 1 {
		if len(proof) > 0 {
			proof[0][0] ^= 1
		} else {
			proof = append(proof, tlog.Hash{9})
		}
	}
	body := "subtree " + strconv.FormatInt(start, 10) + " " + strconv.FormatInt(end, 10) + "\n" + sh.String() + "\n"
	for _, h := range proof {
		body += h.String() + "\n"
	}
	req := append([]byte(body+"\n"), signed...)
	cosig, rerr := wit.processSignSubtreeRequest(ctx, req)
	if rerr != nil || len(cosig) == 0 {
		verifReach("refused")
		verifAssert(len(cosig) == 0, "a refused request returns signatures")
		// completeness on the healthy case: a well-formed request with the witness's cosignature is answered
		if signers&1 != 0 && signers&16 == 0 && validRange && hashKind == 0 && proofKind == 0 {
			verifAssert(rerr == nil, "a correct request on a checkpoint cosigned by the witness is refused")
		}
		return
	}
	verifReach("answered")
	verifAssert(validRange, "signatures for an invalid subtree range or a range beyond the checkpoint")
	verifAssert(proofKind == 0 || len(proof) == 0, "signatures although the subtree proof is corrupted")
	verifAssert(sh == rightHash, "signatures for a hash that is not the subtree's hash in the checkpoint's tree")
	verifAssert(signers&3 != 0, "signatures although none of the own ML-DSA keys cosigned the checkpoint")
	// each returned line comes from a key whose cosignature is on the checkpoint, and verifies as a subtree cosignature
	lines := strings.SplitAfter(string(cosig), "\n")
	count := 0
	for _, ln := range lines {
		if ln == "" {
			continue
		}
		count++
		byWitness := wit.s2.Verifier().VerifySubtree(f.origin, start, end, sh, []byte(ln))
		byMirror := wit.sm.Verifier().VerifySubtree(f.origin, start, end, sh, []byte(ln))
		verifAssert(byWitness || byMirror, "a returned line is not a valid subtree cosignature by an own ML-DSA key")
		if byWitness {
			verifAssert(signers&1 != 0, "the witness key signed although its cosignature is not on the checkpoint")
		}
		if byMirror {
			verifAssert(signers&2 != 0, "the mirror key signed although its cosignature is not on the checkpoint")
		}
	}
	want := 0
	if signers&1 != 0 {
		want++
	}
	if signers&2 != 0 {
		want++
	}
	verifAssert(count == want, "the number of signatures differs from the number of own cosigners on the checkpoint")
}
