//go:build verif

package ctlog

import (
	"crypto/ecdsa"
	"crypto/sha256"
	"encoding/base64"
	"strings"

	"filippo.io/sunlight"
	"filippo.io/torchwood"
	"golang.org/x/mod/sumdb/note"
	"golang.org/x/mod/sumdb/tlog"
)

// ---------------------------------------------------------------------------
// C11 — signed tree heads verify independently and the checkpoint verifier is strict
// ---------------------------------------------------------------------------

func c11Sizes(k int) int64 {
	switch k {
	case 0:
		return 0
	case 1:
		return 1
	case 2:
		return 255
	case 3:
		return 256
	case 4:
		return 1 << 40
	default:
		return 1<<62 - 1
	}
}

// refSTH: independent RFC 6962 §3.5 TreeHeadSignature input (version v1, signature type tree_hash).
func refSTH(ts uint64, size uint64, root [32]byte) []byte {
	b := []byte{0, 1}
	for s := 56; s >= 0; s -= 8 {
		b = append(b, byte(ts>>uint(s)))
	}
	for s := 56; s >= 0; s -= 8 {
		b = append(b, byte(size>>uint(s)))
	}
	return append(b, root[:]...)
}

// splitRFC6962 finds the log's signature line and returns its decoded blob (after the 4-byte key hash).
func splitRFC6962(w *vWorld, cp []byte) ([]byte, string, bool) {
	s := string(cp)
	sep := strings.Index(s, "\n\n")
	if sep < 0 {
		return nil, "", false
	}
	n, err := note.Open(cp, note.VerifierList(mustVerifier(w)))
	if err != nil {
		return nil, "", false
	}
	for _, sig := range n.Sigs {
		if sig.Hash == w.keyH && sig.Name == w.name {
			blob, ok := decodeB64(sig.Base64)
			if !ok || len(blob) < 4 {
				return nil, "", false
			}
			return blob[4:], n.Text, true
		}
	}
	return nil, "", false
}

func mustVerifier(w *vWorld) note.Verifier {
	v, err := sunlight.NewRFC6962Verifier(w.name, w.key.Public())
	if err != nil {
		panic(err)
	}
	return v
}

// VerifC11SignOpen: every checkpoint the log signs opens with the public verifier for (name, key),
// carries the ML-DSA cosignature, embeds the tree-head timestamp, and its reconstructed STH verifies
// with an independent CT signature check. sizeKind selects the tree size; root and timestamp are symbolic.
func VerifC11SignOpen(sizeKind int) {
	w := newWorld(0, 0)
	cfg := w.config(w.newInstance())
	var root tlog.Hash
	copy(root[:], verifNondetBytes("root", 32))
	ts := verifNondetInt64("timestamp")
	verifAssume(ts >= 0)
	n := c11Sizes(sizeKind)
	tree := treeWithTimestamp{Tree: tlog.Tree{N: n, Hash: root}, Time: ts}
	cp, err := signTreeHead(cfg, tree)
	verifAssert(err == nil, "signing a tree head succeeds")
	if err != nil {
		return
	}
	verifReach("signed")
	// opens with the verifier built from the public name and key only
	v := mustVerifier(w)
	opened, err := note.Open(cp, note.VerifierList(v))
	verifAssert(err == nil, "the signed checkpoint opens with the public verifier")
	if err != nil {
		return
	}
	c, err := torchwood.ParseCheckpoint(opened.Text)
	verifAssert(err == nil && c.Origin == w.name && c.N == n && c.Hash == root && c.Extension == "", "the checkpoint text states origin, size and root")
	// ML-DSA cosignature by the log's witness key
	v2, err := torchwood.NewCosignatureVerifierFromKey(w.name, w.wkey.PublicKey())
	verifAssert(err == nil, "cosignature verifier")
	_, err = note.Open(cp, note.VerifierList(v2))
	verifAssert(err == nil, "the signed checkpoint carries the log's ML-DSA cosignature")
	// the timestamp in the signature is the tree head's
	var got int64 = -1
	for _, sig := range opened.Sigs {
		if sig.Hash == v.KeyHash() {
			got, err = sunlight.RFC6962SignatureTimestamp(sig)
			verifAssert(err == nil, "timestamp extraction")
		}
	}
	verifAssert(got == ts, "the signature embeds the tree-head timestamp")
	// independent CT verification of the reconstructed tree head
	blob, _, ok := splitRFC6962(w, cp)
	verifAssert(ok && len(blob) >= 12, "RFC 6962 signature line present")
	if !ok || len(blob) < 12 {
		return
	}
	verifAssert(blob[8] == 4 && blob[9] == 3, "sha256 / ecdsa algorithm identifiers")
	bodyLen := int(blob[10])<<8 | int(blob[11])
	verifAssert(bodyLen == len(blob)-12, "signature length prefix is exact")
	digest := sha256.Sum256(refSTH(uint64(ts), uint64(n), root))
	verifAssert(ecdsa.VerifyASN1(&w.key.PublicKey, digest[:], blob[12:]), "the reconstructed RFC 6962 tree head verifies under the log key")
	// the server's own reader agrees
	w.armedClock = false
	w.lastClock = 1<<63 - 1 - 1000 // the clock reads MaxInt64: no checkpoint is from the future
	oc, ots, err := openCheckpoint(cfg, cp)
	verifAssert(err == nil && oc.N == n && oc.Hash == root && ots == ts, "openCheckpoint returns the signed tuple")
	// determinism
	cp2, err := signTreeHead(cfg, tree)
	b1, _, _ := splitRFC6962(w, cp)
	b2, _, ok2 := splitRFC6962(w, cp2)
	verifAssert(err == nil && ok2 && verifBytesEq(b1, b2), "equal inputs give equal signature bytes")
}

// c11Signed signs a fixed tree head and returns (checkpoint text, RFC 6962 signature blob without key hash).
func c11Signed(w *vWorld) (string, []byte, treeWithTimestamp) {
	cfg := w.config(w.newInstance())
	root := c11Root()
	tree := treeWithTimestamp{Tree: tlog.Tree{N: 1234, Hash: root}, Time: 0x0102030405060708}
	cp, err := signTreeHead(cfg, tree)
	if err != nil {
		panic("signTreeHead failed")
	}
	blob, text, ok := splitRFC6962(w, cp)
	if !ok {
		panic("no RFC 6962 signature")
	}
	return text, blob, tree
}

// VerifC11Blob: for every signature blob of the given length, the verifier accepts only the one
// well-formed encoding of the signature that the independent check accepts for this exact tuple.
func VerifC11Blob(length int) {
	w := newWorld(0, 0)
	text, blob, _ := c11Signed(w)
	v := mustVerifier(w)
	verifAssert(v.Verify([]byte(text), blob), "the genuine signature verifies")
	sig := verifNondetBytes("sig", length)
	if !v.Verify([]byte(text), sig) {
		verifReach("rejected")
		return
	}
	verifReach("accepted")
	verifAssert(verifBytesEq(sig, blob), "the verifier accepts a signature blob that is not the canonical encoding of the valid signature (trailing bytes, other timestamp, other algorithm)")
}

// VerifC11Text: a checkpoint text in which one byte at a time is arbitrary (positions from..to), or
// which has an extra line, verifies only if it is the signed text.
func VerifC11Text(from, to int) {
	w := newWorld(0, 0)
	text, blob, _ := c11Signed(w)
	v := mustVerifier(w)
	if to > len(text) {
		to = len(text)
	}
	pos := from + verifChoice("position", to-from)
	b := verifNondetByte("byte")
	mut := []byte(text)
	mut[pos] = b
	if v.Verify(mut, blob) {
		verifReach("accepted")
		// the accepted text must state the signed (origin, size, root): parsed independently
		o, n, h, ok := refParseCheckpoint(mut)
		verifAssert(ok, "an accepted checkpoint text is not of the form origin, size, root")
		if ok {
			verifAssert(o == w.name && n == 1234 && h == [32]byte(c11Root()), "a checkpoint text that states another origin, size or root verifies")
		}
	} else {
		verifReach("rejected")
	}
}

// VerifC11Extra: appended extension lines, trailing bytes, a foreign origin and another size are rejected.
func VerifC11Extra() {
	w := newWorld(0, 0)
	text, blob, tree := c11Signed(w)
	v := mustVerifier(w)
	verifAssert(!v.Verify([]byte(text+"extension\n"), blob), "an extension line is accepted")
	verifAssert(!v.Verify([]byte(text+verifNondetString("trail", 2)), blob), "trailing bytes are accepted")
	other := torchwood.Checkpoint{Origin: "other.example/log", Tree: tree.Tree}.String()
	verifAssert(!v.Verify([]byte(other), blob), "a foreign origin is accepted")
	bigger := torchwood.Checkpoint{Origin: w.name, Tree: tlog.Tree{N: tree.N + 1, Hash: tree.Hash}}.String()
	verifAssert(!v.Verify([]byte(bigger), blob), "another tree size is accepted")
	// a verifier for another name does not accept this log's checkpoint
	v2, err := sunlight.NewRFC6962Verifier("other.example/log", w.key.Public())
	verifAssert(err == nil && !v2.Verify([]byte(text), blob), "a verifier for another origin accepts the checkpoint")
	// a verifier for another key does not accept it
	v3, err := sunlight.NewRFC6962Verifier(w.name, verifNewECDSAKey().Public())
	verifAssert(err == nil && !v3.Verify([]byte(text), blob), "a verifier for another key accepts the checkpoint")
	verifReach("checked")
}

func c11Root() (root tlog.Hash) {
	for i := range root {
		root[i] = byte(0xA0 + i)
	}
	return root
}

// refParseCheckpoint: independent parser of "origin\nsize\nbase64(root)\n" (no extension lines).
func refParseCheckpoint(text []byte) (origin string, n int64, root [32]byte, ok bool) {
	var lines [][]byte
	start := 0
	for i, c := range text {
		if c == '\n' {
			lines = append(lines, text[start:i])
			start = i + 1
		}
	}
	if start != len(text) || len(lines) != 3 {
		return "", 0, root, false
	}
	origin = string(lines[0])
	if len(lines[1]) == 0 || len(lines[1]) > 18 || (lines[1][0] == '0' && len(lines[1]) > 1) {
		return "", 0, root, false
	}
	for _, c := range lines[1] {
		if c < '0' || c > '9' {
			return "", 0, root, false
		}
		n = n*10 + int64(c-'0')
	}
	// 32 bytes of standard base64: 43 characters and one '='
	b := lines[2]
	if len(b) != 44 || b[43] != '=' {
		return "", 0, root, false
	}
	var acc uint32
	bits := 0
	out := 0
	for _, c := range b[:43] {
		var v uint32
		switch {
		case c >= 'A' && c <= 'Z':
			v = uint32(c - 'A')
		case c >= 'a' && c <= 'z':
			v = uint32(c-'a') + 26
		case c >= '0' && c <= '9':
			v = uint32(c-'0') + 52
		case c == '+':
			v = 62
		case c == '/':
			v = 63
		default:
			return "", 0, root, false
		}
		acc = acc<<6 | v
		bits += 6
		if bits >= 8 {
			bits -= 8
			if out < 32 {
				root[out] = byte(acc >> uint(bits))
			}
			out++
		}
	}
	return origin, n, root, out == 32
}

func decodeB64(s string) ([]byte, bool) {
	b, err := b64Std.DecodeString(s)
	return b, err == nil
}

var b64Std = base64.StdEncoding
