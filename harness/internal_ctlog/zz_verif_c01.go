//go:build verif

package ctlog

import (
	"context"
	"errors"
)

// ---------------------------------------------------------------------------
// C01 — checkpoint history of a log is append-only
// ---------------------------------------------------------------------------

// runRounds drives `rounds` sequencing rounds of up to `pool` symbolic submissions each against the
// world, restarting the instance (LoadLog) after a crash or a fatal sequencing error.
// It returns the last live log (nil if the log could not be reloaded within the budget).
func (w *vWorld) runRounds(l *Log, inst *vInstance, rounds, pool int) *Log {
	ctx := context.Background()
	for r := 0; r < rounds; r++ {
		if l == nil || inst.dead {
			l, inst = w.restart()
			if l == nil {
				return nil
			}
		}
		k := verifChoice("submissions", pool+1)
		for i := 0; i < pool; i++ {
			if i < k {
				l.addLeafToPool(ctx, verifPending("e", 2, 0, false), false)
			}
		}
		verifTraceInt("ROUND entries", int64(k))
		err := l.sequence(ctx)
		if err != nil {
			verifReach("fatal")
			verifAssert(errors.Is(err, errFatal), "sequence returns only fatal errors")
			l = nil
		}
	}
	if l == nil || inst.dead {
		l, _ = w.restart()
	}
	return l
}

// restart loads a fresh instance; load attempts are bounded by the remaining fault and crash budget.
func (w *vWorld) restart() (*Log, *vInstance) {
	for attempt := 0; attempt < 4; attempt++ {
		inst := w.newInstance()
		verifTrace("RESTART")
		f0, c0 := w.faults, w.crashes
		l, err := LoadLog(context.Background(), w.config(inst))
		if err == nil && !inst.dead {
			verifReach("reloaded")
			return l, inst
		}
		if w.faults == f0 && w.crashes == c0 {
			// no fault or crash hit this attempt: the load was refused (clock before the checkpoint time)
			verifReach("load-refused")
			return nil, nil
		}
	}
	return nil, nil
}

// VerifC01 explores every placement of up to `faults` storage/lock failures (applied or not) and up to
// `crashes` crashes over `rounds` rounds from a pre-state of n0 leaves, under an arbitrary clock, and
// checks the append-only monitors at every lock commit and publication, then audits the histories.
func VerifC01(n0, rounds, pool, faults, crashes, clock int) {
	w := newWorld(faults, crashes)
	w.skipStorageCheck = true // storage completeness at every publication is C04's monitor
	l, inst := w.bootstrap(n0)
	w.armed = true
	w.clockMode = clock // 0: every reading arbitrary (stalled, backwards, jumps); 1: strictly increasing
	l = w.runRounds(l, inst, rounds, pool)
	// final recovery with a benign environment so that the audit can read the whole tree
	w.armed = false
	w.clockMode = 1
	if l == nil {
		l, _ = w.restart()
	}
	if l == nil {
		verifReach("unrecoverable")
		verifFail("with no faults and a progressing clock the log reloads")
		return
	}
	verifReach("final")
	w.auditPrefix()
}
