//go:build verif

package ctlog

import (
	"context"
	"errors"
	"time"

	"filippo.io/sunlight"
)

// ---------------------------------------------------------------------------
// C17 — admission control is bounded, priority-respecting and never strands a submitter
// ---------------------------------------------------------------------------

var verifSince time.Duration

//verif:stub time.Since
func verifStubSince(t time.Time) time.Duration { return verifSince }

type verifArrival struct {
	sub      *verifSub
	low      bool
	admitted bool // entered the pool (not rejected, not served from a dedup source)
	evicted  bool
}

// pollNow completes the waiter if it can complete without blocking.
func pollNow(sub *verifSub) bool {
	if sub.done {
		return true
	}
	var leaf *sunlight.LogEntry
	var err error
	if !verifTryRun(func() { leaf, err = sub.f(context.Background()) }) {
		return false
	}
	sub.done, sub.leaf, sub.err = true, leaf, err
	return true
}

// VerifC17Pool: arrivals of high/low-priority submissions (symbolic bytes: every duplicate pattern)
// into a pool of the given size, then one round; checks the bound, the eviction rule, that evicted
// entries are never sequenced, and that every submitter gets exactly one outcome.
func VerifC17Pool(poolSize, arrivals int) {
	w := newWorld(0, 0)
	w.clockMode = 1
	w.poolSize = poolSize
	l, _ := w.bootstrap(0)
	ctx := context.Background()
	verifMapNondetOrder(l.currentPool.lowPriority)
	var arr []*verifArrival
	for i := 0; i < arrivals; i++ {
		low := verifNondetBool("low-priority")
		p := l.currentPool
		before := len(p.pendingLeaves)
		lowBefore := 0
		for _, a := range arr {
			if a.admitted && !a.evicted && a.low {
				lowBefore++
			}
		}
		e := verifPending("a", 1, 0, false)
		f, src := l.addLeafToPool(ctx, e, low)
		a := &verifArrival{sub: &verifSub{tag: "a", e: e, f: f, src: src}, low: low}
		arr = append(arr, a)
		verifAssert(poolSize == 0 || len(p.pendingLeaves) <= poolSize, "the pool holds more entries than its configured size")
		// which earlier arrivals were evicted by this one?
		newlyEvicted := 0
		for _, b := range arr[:len(arr)-1] {
			if b.admitted && !b.evicted && pollNow(b.sub) {
				verifAssert(errors.Is(b.sub.err, errEvicted), "a pending submitter completed before its pool was sequenced without being evicted")
				verifAssert(b.low, "a high-priority entry was evicted")
				b.evicted = true
				newlyEvicted++
			}
		}
		switch src {
		case "sequencer":
			a.admitted = true
			full := poolSize > 0 && before >= poolSize
			if full {
				verifReach("eviction")
				verifAssert(!low, "a low-priority submission was admitted into a full pool")
				verifAssert(lowBefore > 0 && newlyEvicted == 1, "a high-priority submission into a full pool must evict exactly one pending low-priority entry")
				verifAssert(len(p.pendingLeaves) == before, "an eviction changed the pool size")
			} else {
				verifAssert(newlyEvicted == 0, "an entry was evicted although the pool was not full")
				verifAssert(len(p.pendingLeaves) == before+1, "an admitted entry was not appended")
			}
		case "ratelimit":
			verifReach("rejected")
			full := poolSize > 0 && before >= poolSize
			verifAssert(full && (low || lowBefore == 0), "a submission was rejected although it should have been admitted")
			verifAssert(newlyEvicted == 0 && len(p.pendingLeaves) == before, "a rejection changed the pool")
			verifAssert(pollNow(a.sub) && errors.Is(a.sub.err, errPoolFull), "a rejected submitter does not get the retry-later answer at once")
		case "pool":
			verifReach("pool-duplicate")
			verifAssert(newlyEvicted == 0 && len(p.pendingLeaves) == before, "a pool duplicate changed the pool")
		default:
			verifFail("unexpected admission source " + src)
		}
	}
	verifAssert(l.sequence(ctx) == nil, "a fault-free round fails")
	pub := w.published()
	var acks []verifAck
	admittedLive := 0
	for _, a := range arr {
		verifAssert(pollNow(a.sub), "a submitter is still waiting after its pool was sequenced")
		if !a.sub.done {
			continue
		}
		switch {
		case a.evicted:
			verifAssert(errors.Is(a.sub.err, errEvicted), "an evicted submitter got a different outcome later")
		case a.sub.src == "ratelimit":
			verifAssert(errors.Is(a.sub.err, errPoolFull), "a rejected submitter got a different outcome later")
		case a.sub.src == "pool" && a.sub.err != nil:
			// a duplicate of a pending entry shares its fate: it may have been evicted with it
			shared := false
			for _, b := range arr {
				if b.evicted && verifBytesEq(b.sub.e.Certificate, a.sub.e.Certificate) {
					shared = true
				}
			}
			verifAssert(shared && errors.Is(a.sub.err, errEvicted), "a pool duplicate failed although the entry it duplicates was not evicted")
		default:
			verifAssert(a.sub.err == nil, "an admitted submitter was not acknowledged by a fault-free round")
			if a.sub.err == nil {
				acks = append(acks, verifAck{a.sub.e, a.sub.leaf})
			}
			if a.admitted {
				admittedLive++
			}
		}
	}
	w.checkAcks(acks, "after the round")
	verifAssert(pub.n == int64(admittedLive), "the number of sequenced leaves differs from the number of admitted, non-evicted entries")
	// an evicted entry's bytes never appear in a leaf unless an admitted entry is equal to it
	leaves, ok := w.readLeaves(pub.n)
	verifAssert(ok, "data tiles unreadable")
	for _, lf := range leaves {
		found := false
		for _, a := range arr {
			if a.admitted && !a.evicted && verifBytesEq(a.sub.e.Certificate, lf.Certificate) {
				found = true
			}
		}
		verifAssert(found, "a sequenced leaf does not correspond to an admitted, non-evicted submission")
	}
	verifReach("sequenced")
}

// VerifC17Stop: the sequencer loop with pending submitters, stopped by cancellation (mode 0), by the
// read-only date (mode 1), by a fatal lock error (mode 2) or by a clock reading that does not progress (mode 3). After the stop every pending and future
// submission fails and no further checkpoint is signed.
func VerifC17Stop(mode, roundsBefore int) {
	w := newWorld(0, 0)
	w.clockMode = 1
	l, _ := w.bootstrap(0)
	ctx, cancel := context.WithCancel(context.Background())
	verifSince = -time.Hour // accepting submissions
	var runErr error
	finished := false
	go func() {
		runErr = l.RunSequencer(ctx, time.Second)
		finished = true
	}()
	verifYield()
	s := &verifSched{w: w, l: l, lc: 2, maxSubs: 8}
	for r := 0; r < roundsBefore; r++ {
		sub := s.submit("early")
		verifTick()
		verifYield()
		verifAssert(pollNow(sub) && sub.err == nil, "a submission is not acknowledged promptly after its pool is sequenced")
	}
	verifAssert(!finished, "the sequencer stopped without a reason")
	s.lc = 3 // a length no earlier entry has: never served from the cache
	pending := s.submit("pending")
	commits := len(w.lockHist)
	switch mode {
	case 0:
		cancel()
		verifYield()
	case 1:
		verifSince = ReadOnlyAfter + time.Duration(verifNondetInt64("past-the-date"))
		verifAssume(verifSince >= ReadOnlyAfter)
		verifTick()
		verifYield()
	case 3:
		// the clock reading of the next round is arbitrary: if it is not after the tree head's time the
		// round ends with the fatal "time did not progress" error
		w.clockMode = 0
		verifTick()
		verifYield()
		w.clockMode = 1
		if !finished {
			verifReach("progressed")
			verifAssert(pollNow(pending) && pending.err == nil, "a submission is not acknowledged promptly after its pool is sequenced")
			cancel()
			return
		}
	default:
		w.armed, w.faults = true, 1
		w.faultOnly = "lock-replace"
		verifTick()
		verifYield()
		w.armed = false
		verifAssume(w.faults == 0) // the scenario of interest: the lock operation did fail
	}
	verifAssert(finished, "the sequencer keeps running after a stop condition")
	if !finished {
		return
	}
	verifReach("stopped")
	verifAssert(runErr != nil, "a stopped sequencer reports no error")
	if mode == 1 {
		var sunset SunsetLogError
		verifAssert(errors.As(runErr, &sunset) && sunset.FinalTree.N == w.lockHist[len(w.lockHist)-1].n, "the read-only stop reports the final tree")
	}
	if mode == 2 || mode == 3 {
		verifAssert(errors.Is(runErr, errFatal), "a lock failure or a clock that did not progress stops the sequencer with the fatal error")
	}
	verifAssert(pollNow(pending) && pending.err != nil, "a submitter pending at the stop is not failed promptly")
	s.lc = 4
	late := s.submit("late")
	verifAssert(late.src == "closed" && pollNow(late) && late.err != nil, "a submission after the stop does not fail")
	// ticks after the stop sign nothing
	verifTick()
	verifYield()
	extra := 0
	if mode == 2 {
		extra = 1 // the failed replace may have been applied (outcome unknown), nothing more
	}
	verifAssert(len(w.lockHist) <= commits+extra, "a checkpoint was signed and committed after the sequencer stopped")
	cancel()
}
