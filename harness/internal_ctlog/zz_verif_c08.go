//go:build verif

package ctlog

import (
	"context"

	"golang.org/x/mod/sumdb/tlog"

	"filippo.io/sunlight"
)

// ---------------------------------------------------------------------------
// C08 — tampered object storage can stop the log but never make it sign a fork
// ---------------------------------------------------------------------------

// VerifC08Tamper: after a fault-free history to n0 leaves (the last round with an issuer), an
// adversary controls what Fetch returns for up to `budget` objects during the restart and the next
// round: not found, an older version / another object, fresh arbitrary bytes of the same length, or a
// truncation. target restricts the tampered key class: 0 any, 1 checkpoint, 2 hash tiles, 3 data tile,
// 4 staging bundle (lock ahead of storage), 5 issuer, 6 hash tiles with the lock ahead of storage,
// 7 data tile and hash tile tampered consistently (certificate bytes / whole tile symbolic) with the lock ahead,
// 8 right-edge data tile with authentic entries swapped or duplicated. The log may refuse to load or stop; if it signs
// a new checkpoint, that checkpoint extends exactly the committed tree by the acknowledged entries.
func VerifC08Tamper(n0, budget, target, positions int) {
	c08Positions = positions
	w := newWorld(0, 0)
	w.clockMode = 1
	// Merkle-uncovered content (chain fingerprints, stored pre-certificates, names) can be altered by a
	// tampered bundle or tile without contradicting C08; the byte-exact storage monitors are C04's and
	// assume untampered storage
	w.skipStorageCheck = true
	w.tolerant = true
	l, inst := w.bootstrap(n0)
	ctx := context.Background()
	issuerSub := verifPending("withissuer", 2, 1, false)
	f0, _ := l.addLeafToPool(ctx, issuerSub, false)
	if target == 4 || target == 6 || target == 7 {
		// crash right after the lock commit: the next start must replay the staging bundle
		w.onStep = func(i *vInstance, op, key string) {
			if op == "upload" && len(key) > 5 && key[:5] == "tile/" {
				i.dead = true
			}
		}
	}
	l.sequence(ctx)
	w.onStep = nil
	if target != 4 && target != 6 && target != 7 {
		if _, err := f0(ctx); err != nil {
			panic("setup round failed")
		}
	}
	_ = inst
	// ground truth: the committed leaves, read before any tampering (for target 4 the last round's
	// leaf is only in the staging bundle: it is the issuer submission at index n0)
	committed := w.lockHist[len(w.lockHist)-1]
	truthN := committed.n
	var truth [][32]byte
	if target == 4 || target == 6 || target == 7 {
		leaves, ok := w.readLeaves(truthN - 1)
		if !ok {
			panic("ground truth unreadable")
		}
		for _, e := range leaves {
			truth = append(truth, refLeafHash(e))
		}
		truth = append(truth, refLeafHash(issuerSub.asLogEntry(truthN-1, committed.time)))
	} else {
		leaves, ok := w.readLeaves(truthN)
		if !ok {
			panic("ground truth unreadable")
		}
		for _, e := range leaves {
			truth = append(truth, refLeafHash(e))
		}
	}
	verifAssert(refMTH(truth) == [32]byte(committed.hash), "ground truth matches the committed root")

	remaining := budget
	tampered := map[string]bool{}
	w.tamper = func(key string, data []byte, found bool) ([]byte, bool) {
		class := 0
		switch {
		case key == "checkpoint":
			class = 1
		case len(key) > 7 && (key[:7] == "tile/0/" || key[:7] == "tile/1/"):
			class = 2
		case len(key) > 10 && key[:10] == "tile/data/":
			class = 3
		case len(key) > 8 && key[:8] == "staging/":
			class = 4
		case len(key) > 7 && key[:7] == "issuer/":
			class = 5
		}
		want := target
		if target == 6 {
			want = 2 // hash tiles, with the lock ahead of storage
		}
		if target == 7 {
			// consistent tampering of the right-edge data tile and hash tile, with the lock ahead of storage
			if !found || remaining == 0 || tampered[key] || (class != 2 && class != 3) {
				return data, found
			}
			remaining--
			tampered[key] = true
			if class == 2 {
				verifTrace("TAMPER arbitrary bytes " + key)
				return verifNondetBytes("hashtile", len(data)), true
			}
			// keep the framing of the data tile, replace the certificate bytes of its last entry
			verifTrace("TAMPER certificate bytes in " + key)
			out := append([]byte{}, data...)
			off := len(out) - (2 + 32) - 10 - 2 // fingerprints, extension, then the 2 certificate bytes
			copy(out[off:off+2], verifNondetBytes("certbytes", 2))
			return out, true
		}
		if target == 8 {
			// the right-edge data tile with two of its authentic entries swapped, or one duplicated over another
			if !found || remaining == 0 || tampered[key] || class != 3 {
				return data, found
			}
			raw, ok := verifUngzip(data)
			if !ok {
				panic("stored data tile is not compressed")
			}
			var ents [][]byte
			for len(raw) > 0 {
				_, rest, err := sunlight.ReadTileLeaf(raw)
				if err != nil {
					panic("stored data tile does not parse")
				}
				ents = append(ents, raw[:len(raw)-len(rest)])
				raw = rest
			}
			if len(ents) < 2 {
				return data, found
			}
			remaining--
			tampered[key] = true
			i := verifConcretize(verifChoice("entry-i", len(ents)))
			j := verifConcretize(verifChoice("entry-j", len(ents)))
			verifAssume(i != j)
			if verifNondetBool("duplicate") {
				verifTrace("TAMPER duplicate an entry over another in " + key)
				ents[j] = ents[i]
			} else {
				verifTrace("TAMPER swap two entries of " + key)
				ents[i], ents[j] = ents[j], ents[i]
			}
			var out []byte
			for _, e := range ents {
				out = append(out, e...)
			}
			return verifGzip(out), true
		}
		if !found || remaining == 0 || tampered[key] || (want != 0 && class != want) || class == 0 {
			return data, found
		}
		switch verifChoice("tamper", 5) {
		case 0:
			return data, found
		case 1:
			remaining--
			tampered[key] = true
			verifTrace("TAMPER delete " + key)
			return nil, false
		case 2:
			remaining--
			tampered[key] = true
			verifTrace("TAMPER swap " + key)
			if class == 1 {
				// roll the published checkpoint back to its first version
				return w.pubHist[0].raw, true
			}
			// another object of the store
			return w.objects["_roots.pem"].data, true
		case 3:
			remaining--
			tampered[key] = true
			verifTrace("TAMPER arbitrary bytes " + key)
			if class == 1 {
				// byte-level mutations of signed checkpoints are C11's subject (text and signature strictness)
				verifAssume(false)
			}
			if len(data) > 40 {
				// long objects: an arbitrary change of one 8-byte window, at one of up to 24 offsets
				// (every 8th offset below 128, then 8 evenly spaced ones)
				off := c08Position(len(data) - 8)
				out := append([]byte{}, data...)
				copy(out[off:], verifNondetBytes("flip", 8))
				return out, true
			}
			return verifNondetBytes("bytes", len(data)), true
		default:
			remaining--
			tampered[key] = true
			verifTrace("TAMPER truncate " + key)
			k := len(data) - 1
			if len(data) > 96 {
				k = c08Position(len(data))
			} else if len(data) > 0 {
				k = verifChoice("cut", len(data))
			}
			return data[:k], true
		}
	}
	l2, err := LoadLog(ctx, w.config(w.newInstance()))
	if err != nil {
		verifReach("refused to load")
		return
	}
	verifReach("loaded")
	verifAssert(l2.tree.N == truthN && l2.tree.Hash == committed.hash, "the loaded tree is not the tree committed in the lock store")
	fresh := verifPending("fresh", 5, 1, false)
	f, _ := l2.addLeafToPool(ctx, fresh, false)
	before := len(w.lockHist)
	serr := l2.sequence(ctx)
	leaf, werr := f(ctx)
	if len(w.lockHist) == before {
		verifReach("stopped")
		verifAssert(werr != nil, "an entry is acknowledged although nothing was committed")
		return
	}
	_ = serr
	verifReach("signed")
	nc := w.lockHist[len(w.lockHist)-1]
	if werr != nil && nc.n == truthN {
		// the submission was refused (e.g. its issuer could not be stored): an empty round re-signs the same tree
		verifAssert(nc.hash == committed.hash, "a checkpoint of the committed size with another root is signed")
		return
	}
	verifAssert(nc.n == truthN+1, "the new checkpoint does not extend the committed tree by exactly the new entry")
	var newLeaf *sunlight.LogEntry
	if werr == nil {
		newLeaf = leaf
		verifAssert(leaf.LeafIndex == truthN, "the acknowledged index is not the next index")
	} else {
		newLeaf = fresh.asLogEntry(truthN, nc.time)
	}
	all := append(append([][32]byte{}, truth...), refLeafHash(newLeaf))
	verifAssert(refMTH(all) == [32]byte(nc.hash), "the checkpoint signed after tampering is not the committed tree plus the newly sequenced entry")
	// the data tile the restarted instance published for the new tree starts with the entries of the
	// committed tree it continues: every position below the committed size holds an entry whose Merkle
	// leaf is the committed one (uncovered fields may differ, and what follows the committed entries is
	// not constrained here: LoadLog accepts slack after the verified entries, see DESIGN.md observations)
	tileStart := (nc.n - 1) / sunlight.TileWidth * sunlight.TileWidth
	if truthN > tileStart {
		key := sunlight.TilePath(tlog.Tile{H: sunlight.TileHeight, L: -1, N: tileStart / sunlight.TileWidth, W: int(nc.n - tileStart)})
		o, found := w.objects[key]
		verifAssert(found, "the data tile of the new tree is not published")
		if found {
			raw, okz := verifUngzip(o.data)
			good := okz
			for i := tileStart; i < truthN && good; i++ {
				e, rest, err := sunlight.ReadTileLeaf(raw)
				if err != nil {
					good = false
					break
				}
				raw = rest
				good = verifAnd(good, refLeafHash(e) == truth[i])
			}
			verifAssert(good, "the data tile published after tampering does not start with the entries of the tree it continues")
		}
	}
}

// c08Position picks an offset in [0, n): every 8th offset below 128, then 8 evenly spaced ones.
var c08Positions = 24

func c08Position(n int) int {
	k := verifChoice("position", c08Positions)
	if k < 16 {
		off := k * 8
		if off >= n {
			verifAssume(false)
		}
		return off
	}
	off := 128 + (n-128)*(k-16)/8
	if off >= n || off < 0 {
		verifAssume(false)
	}
	return off
}
