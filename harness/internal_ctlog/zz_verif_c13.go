//go:build verif

package ctlog

import (
	"context"
	"errors"
	"io"
	"io/fs"
	"log/slog"
	"os"
	"strings"
	"time"
)

// ---------------------------------------------------------------------------
// C13 — the filesystem backend is atomic, durable, immutable-respecting and confined
//
// Model file system (the contract that replaces package os and the kernel):
//   * an inode is a directory (name -> inode) or a file (bytes, mode, immutable flag);
//   * every inode has a volatile and a durable version: fsync(file) makes its bytes durable,
//     fsync(dir) makes its entries durable; rename/create/remove/mkdir change volatile entries only;
//   * power loss keeps the durable version plus an arbitrary subset of the volatile differences;
//   * Read may be short (1..len bytes), returns (0, io.EOF) at the end and (0, nil) for an empty buffer;
//   * any call may fail (fault budget) without effect.
// ---------------------------------------------------------------------------

type vInode struct {
	dir    bool
	vol    []byte
	dur    []byte
	synced bool
	mode   os.FileMode
	immut  bool
	ents   map[string]*vInode
	dents  map[string]*vInode
	order  []string
}

type vFile struct {
	ino    *vInode
	pos    int
	path   string
	closed bool
}

var vfs struct {
	root      *vInode
	files     map[*os.File]*vFile
	faults    int
	tmp       int
	mode      int // 0 = full model, 1 = record paths only (confinement)
	base      string
	watch     string // absolute path of the key under observation
	old, new  []byte
	hasOld    bool
	shortRd   bool
	recOpenOK bool
	ops       []string
}

func vfsReset(base string, faults int) {
	vfs.root = &vInode{dir: true, ents: map[string]*vInode{}, dents: map[string]*vInode{}, synced: true}
	vfs.files = map[*os.File]*vFile{}
	vfs.faults = faults
	vfs.tmp = 0
	vfs.mode = 0
	vfs.base = base
	vfs.watch = ""
	vfs.hasOld = false
	vfs.shortRd = false
	vfs.recOpenOK = false
	vfs.ops = nil
}

func vfsSplit(path string) []string {
	var out []string
	for _, p := range strings.Split(path, "/") {
		if p != "" {
			out = append(out, p)
		}
	}
	return out
}

func vfsLookup(path string) *vInode {
	n := vfs.root
	for _, p := range vfsSplit(path) {
		if n == nil || !n.dir {
			return nil
		}
		n = n.ents[p]
	}
	return n
}

func vfsParent(path string) (*vInode, string) {
	parts := vfsSplit(path)
	if len(parts) == 0 {
		return nil, ""
	}
	n := vfs.root
	for _, p := range parts[:len(parts)-1] {
		if n == nil || !n.dir {
			return nil, ""
		}
		n = n.ents[p]
	}
	if n == nil || !n.dir {
		return nil, ""
	}
	return n, parts[len(parts)-1]
}

// vfsMkdirDurable creates a directory that already exists durably (pre-state).
func vfsMkdirDurable(path string) {
	n := vfs.root
	for _, p := range vfsSplit(path) {
		c := n.ents[p]
		if c == nil {
			c = &vInode{dir: true, ents: map[string]*vInode{}, dents: map[string]*vInode{}, synced: true, mode: 0755}
			n.ents[p] = c
			n.dents[p] = c
			n.order = append(n.order, p)
		}
		n = c
	}
}

func vfsPutDurable(path string, data []byte, mode os.FileMode, immut bool) {
	d, name := vfsParent(path)
	f := &vInode{vol: data, dur: data, synced: true, mode: mode, immut: immut}
	d.ents[name] = f
	d.dents[name] = f
}

func vfsFault(op string) bool {
	if vfs.faults > 0 && verifNondetBool("fault:"+op) {
		vfs.faults--
		verifTrace("FAULT " + op)
		return true
	}
	return false
}

var errInjected = errors.New("injected I/O error")

// vfsStep is called at the start of every file-system operation: it is a crash point and a point
// at which a concurrent reader may run.
func vfsStep(op, path string) {
	verifTrace(op + " " + path)
	vfs.ops = append(vfs.ops, op+" "+path)
	if vfs.mode == 1 {
		// creating the configured directory itself legitimately inspects and syncs its ancestors
		ancestorOp := op == "stat" || op == "mkdir" || op == "openfile" || op == "fsync" || op == "close"
		if !(ancestorOp && verifIsAncestorOfBase(path)) {
			verifAssert(verifConfined(path), "file-system call outside the configured directory: "+op)
		}
		return
	}
	vfsCheckObservers()
}

func verifIsAncestorOfBase(path string) bool {
	return path == "/" || strings.HasPrefix(vfs.base+"/", path+"/")
}

func verifConfined(path string) bool {
	if path != vfs.base && !strings.HasPrefix(path, vfs.base+"/") {
		return false
	}
	if strings.Contains(path, "/../") || strings.HasSuffix(path, "/..") || strings.Contains(path, "\x00") {
		return false
	}
	return true
}

func vfsContentOK(b []byte) bool {
	if verifBytesEq(b, vfs.new) {
		return true
	}
	return vfs.hasOld && verifBytesEq(b, vfs.old)
}

// vfsCheckObservers asserts, for the watched key, that (a) a reader sees no object, the old one or the
// new one, complete; (b) the same holds for every state that can survive a power loss now.
func vfsCheckObservers() {
	if vfs.watch == "" {
		return
	}
	if n := vfsLookup(vfs.watch); n != nil && !n.dir {
		verifAssert(vfsContentOK(n.vol), "a concurrent reader sees a partial or foreign object")
	}
	vfsCheckCrash(vfs.root, vfsSplit(vfs.watch))
}

func vfsCheckCrash(n *vInode, rest []string) {
	if n == nil {
		return
	}
	if len(rest) == 0 {
		if n.dir {
			return
		}
		verifAssert(n.synced, "after power loss the key may name a file whose data was never synced")
		verifAssert(vfsContentOK(n.dur), "after power loss the key may read back partial or foreign bytes")
		return
	}
	if !n.dir {
		return
	}
	a, b := n.ents[rest[0]], n.dents[rest[0]]
	vfsCheckCrash(a, rest[1:])
	if b != a {
		vfsCheckCrash(b, rest[1:])
	}
}

// vfsDurableRead resolves the path in the durable view only (every un-synced effect lost).
func vfsDurableRead(path string) ([]byte, bool) {
	n := vfs.root
	for _, p := range vfsSplit(path) {
		if n == nil || !n.dir {
			return nil, false
		}
		n = n.dents[p]
	}
	if n == nil || n.dir || !n.synced {
		return nil, false
	}
	return n.dur, true
}

type vInfo struct {
	name string
	n    *vInode
}

func (i vInfo) Name() string       { return i.name }
func (i vInfo) Size() int64        { return int64(len(i.n.vol)) }
func (i vInfo) Mode() fs.FileMode  { return i.n.mode }
func (i vInfo) ModTime() time.Time { return time.Time{} }
func (i vInfo) IsDir() bool        { return i.n.dir }
func (i vInfo) Sys() any           { return nil }

//verif:stub os.IsNotExist
func verifStubIsNotExist(err error) bool { return errors.Is(err, fs.ErrNotExist) }

//verif:stub os.IsExist
func verifStubIsExist(err error) bool { return errors.Is(err, fs.ErrExist) }

//verif:stub os.Stat
func verifStubStat(name string) (os.FileInfo, error) {
	vfsStep("stat", name)
	if vfs.mode == 1 {
		return vInfo{name, &vInode{dir: true}}, nil
	}
	n := vfsLookup(name)
	if n == nil {
		return nil, fs.ErrNotExist
	}
	return vInfo{name, n}, nil
}

func vfsDummyFile(name string) *os.File {
	f := new(os.File)
	vfs.files[f] = &vFile{ino: &vInode{}, path: name}
	return f
}

func vfsOpen(name string) (*os.File, error) {
	n := vfsLookup(name)
	if n == nil {
		return nil, fs.ErrNotExist
	}
	f := new(os.File)
	vfs.files[f] = &vFile{ino: n, path: name}
	return f, nil
}

//verif:stub os.Open
func verifStubOpen(name string) (*os.File, error) {
	vfsStep("open", name)
	if vfs.mode == 1 {
		if vfs.recOpenOK {
			return vfsDummyFile(name), nil
		}
		return nil, fs.ErrNotExist
	}
	if vfsFault("open") {
		return nil, errInjected
	}
	return vfsOpen(name)
}

//verif:stub os.OpenFile
func verifStubOpenFile(name string, flag int, perm os.FileMode) (*os.File, error) {
	vfsStep("openfile", name)
	if vfs.mode == 1 {
		return vfsDummyFile(name), nil
	}
	if vfsFault("openfile") {
		return nil, errInjected
	}
	return vfsOpen(name)
}

//verif:stub os.CreateTemp
func verifStubCreateTemp(dir, pattern string) (*os.File, error) {
	vfsStep("createtemp", strings.TrimSuffix(dir, "/")+"/"+pattern)
	if vfs.mode == 1 {
		return vfsDummyFile(strings.TrimSuffix(dir, "/") + "/" + pattern + "-tmp"), nil
	}
	if vfsFault("createtemp") {
		return nil, errInjected
	}
	d := vfsLookup(dir)
	if d == nil || !d.dir {
		return nil, fs.ErrNotExist
	}
	vfs.tmp++
	name := pattern + "-tmp" + string(rune('0'+vfs.tmp))
	n := &vInode{mode: 0600}
	d.ents[name] = n
	f := new(os.File)
	vfs.files[f] = &vFile{ino: n, path: dir + "/" + name}
	return f, nil
}

//verif:stub os.Rename
func verifStubRename(oldpath, newpath string) error {
	vfsStep("rename", oldpath+" -> "+newpath)
	if vfs.mode == 1 {
		vfsStep("rename-target", newpath)
		return nil
	}
	if vfsFault("rename") {
		return errInjected
	}
	od, on := vfsParent(oldpath)
	nd, nn := vfsParent(newpath)
	if od == nil || nd == nil || od.ents[on] == nil {
		return fs.ErrNotExist
	}
	if t := nd.ents[nn]; t != nil && t.immut {
		return errors.New("operation not permitted (immutable target)")
	}
	nd.ents[nn] = od.ents[on]
	delete(od.ents, on)
	vfsCheckObservers()
	return nil
}

//verif:stub os.Remove
func verifStubRemove(name string) error {
	vfsStep("remove", name)
	if vfs.mode == 1 {
		return nil
	}
	if vfsFault("remove") {
		return errInjected
	}
	d, n := vfsParent(name)
	if d == nil || d.ents[n] == nil {
		return fs.ErrNotExist
	}
	if d.ents[n].immut {
		return errors.New("operation not permitted (immutable file)")
	}
	delete(d.ents, n)
	return nil
}

//verif:stub os.Mkdir
func verifStubMkdir(name string, perm os.FileMode) error {
	vfsStep("mkdir", name)
	if vfs.mode == 1 {
		return nil
	}
	if vfsFault("mkdir") {
		return errInjected
	}
	d, n := vfsParent(name)
	if d == nil {
		return fs.ErrNotExist
	}
	if d.ents[n] != nil {
		return fs.ErrExist
	}
	d.ents[n] = &vInode{dir: true, ents: map[string]*vInode{}, dents: map[string]*vInode{}, mode: perm}
	return nil
}

//verif:stub os.ReadFile
func verifStubReadFile(name string) ([]byte, error) {
	vfsStep("readfile", name)
	if vfs.mode == 1 {
		return nil, errInjected
	}
	n := vfsLookup(name)
	if n == nil || n.dir {
		return nil, fs.ErrNotExist
	}
	return append([]byte{}, n.vol...), nil
}

//verif:stub (*os.File).Read
func verifStubFileRead(f *os.File, b []byte) (int, error) {
	vf := vfs.files[f]
	vfsStep("read", vf.path)
	if vfsFault("read") {
		return 0, errInjected
	}
	if len(b) == 0 {
		return 0, nil
	}
	rem := len(vf.ino.vol) - vf.pos
	if rem <= 0 {
		return 0, io.EOF
	}
	n := rem
	if len(b) < n {
		n = len(b)
	}
	if vfs.shortRd && n > 1 {
		k := verifChoice("short-read", n)
		n = k + 1
	}
	copy(b, vf.ino.vol[vf.pos:vf.pos+n])
	vf.pos += n
	return n, nil
}

//verif:stub (*os.File).Write
func verifStubFileWrite(f *os.File, b []byte) (int, error) {
	vf := vfs.files[f]
	vfsStep("write", vf.path)
	if vfsFault("write") {
		// partial write: some prefix reaches the file
		k := 0
		if len(b) > 0 {
			k = verifChoice("partial-write", len(b))
		}
		vf.ino.vol = append(append([]byte{}, vf.ino.vol...), b[:k]...)
		vf.ino.synced = false
		return k, errInjected
	}
	vf.ino.vol = append(append([]byte{}, vf.ino.vol...), b...)
	vf.ino.synced = false
	return len(b), nil
}

//verif:stub (*os.File).Chmod
func verifStubFileChmod(f *os.File, mode os.FileMode) error {
	vf := vfs.files[f]
	vfsStep("chmod", vf.path)
	if vfsFault("chmod") {
		return errInjected
	}
	vf.ino.mode = mode
	return nil
}

//verif:stub (*os.File).Sync
func verifStubFileSync(f *os.File) error {
	vf := vfs.files[f]
	vfsStep("fsync", vf.path)
	if vfsFault("fsync") {
		return errInjected
	}
	n := vf.ino
	if n.dir {
		n.dents = map[string]*vInode{}
		for k, v := range n.ents {
			n.dents[k] = v
		}
	} else {
		n.dur = append([]byte{}, n.vol...)
	}
	n.synced = true
	return nil
}

//verif:stub (*os.File).Close
func verifStubFileClose(f *os.File) error {
	vf := vfs.files[f]
	if vf == nil {
		return errors.New("close of unknown file")
	}
	vfsStep("close", vf.path)
	vf.closed = true
	if vfsFault("close") {
		return errInjected
	}
	return nil
}

//verif:stub (*os.File).Name
func verifStubFileName(f *os.File) string { return vfs.files[f].path }

//verif:stub filippo.io/sunlight/internal/immutable.Set
func verifStubImmutableSet(f *os.File) {
	if vf := vfs.files[f]; vf != nil {
		vf.ino.immut = true
	}
}

//verif:stub filippo.io/sunlight/internal/immutable.Unset
func verifStubImmutableUnset(f *os.File) {
	if vf := vfs.files[f]; vf != nil {
		vf.ino.immut = false
	}
}

func verifBackend() *LocalBackend { return &LocalBackend{dir: "/data"} }

func verifOpts(immutable int) *UploadOptions {
	if immutable == 1 {
		return &UploadOptions{Immutable: true}
	}
	return &UploadOptions{}
}

// VerifC13Upload: an upload that returns nil is completely readable and survives power loss;
// at every system call in between, a reader or a power loss sees the old or the new object, complete.
// depth = number of new directories to create (0..2), existing = an older mutable object is present,
// n = object length, faults = fault budget.
func VerifC13Upload(depth, existing, n, faults, immutable int) {
	vfsReset("/data", faults)
	key := "checkpoint"
	switch depth {
	case 0:
		vfsMkdirDurable("/data")
	case 1:
		vfsMkdirDurable("/data")
		key = "issuer/abc"
	default:
		vfsMkdirDurable("/data")
		key = "tile/0/001"
	}
	data := verifNondetBytes("data", n)
	vfs.watch = "/data/" + key
	vfs.new = data
	if existing == 1 {
		old := verifNondetBytes("old", n)
		vfsMkdirDurable("/data/" + key[:strings.LastIndex("/"+key, "/")])
		vfsPutDurable("/data/"+key, old, 0644, false)
		vfs.old, vfs.hasOld = old, true
	}
	err := verifBackend().Upload(context.Background(), key, data, verifOpts(immutable))
	vfsCheckObservers()
	if err != nil {
		verifReach("failed")
		verifAssert(faults > 0, "an upload fails only when the file system failed")
		return
	}
	verifReach("uploaded")
	got, ok := vfsDurableRead("/data/" + key)
	verifAssert(ok, "after a successful upload the object, its data and every directory entry on its path are durable")
	verifAssert(ok && verifBytesEq(got, data), "the durable object has exactly the uploaded bytes")
	back, err := verifBackend().Fetch(context.Background(), key)
	verifAssert(err == nil && verifBytesEq(back, data), "the uploaded object is completely readable")
	if immutable == 1 {
		f := vfsLookup("/data/" + key)
		verifAssert(f != nil && f.mode == 0444, "an immutable object is read-only")
	}
}

// VerifC13Reupload: after an immutable upload, identical bytes succeed, different bytes fail and
// leave the object unchanged; for every length including zero and under short reads.
func VerifC13Reupload(n, m, shortReads int) {
	vfsReset("/data", 0)
	vfsMkdirDurable("/data/tile/0")
	first := verifNondetBytes("first", n)
	second := verifNondetBytes("second", m)
	b := verifBackend()
	opts := &UploadOptions{Immutable: true}
	verifAssert(b.Upload(context.Background(), "tile/0/000", first, opts) == nil, "first immutable upload succeeds")
	vfs.shortRd = shortReads == 1
	err := b.Upload(context.Background(), "tile/0/000", second, opts)
	same := n == m && verifBytesEq(first, second)
	if same {
		verifReach("identical")
		verifAssert(err == nil, "re-uploading identical bytes to an immutable object succeeds")
	} else {
		verifReach("different")
		verifAssert(err != nil, "uploading different bytes over an immutable object fails")
	}
	got, ok := vfsDurableRead("/data/tile/0/000")
	verifAssert(ok && verifBytesEq(got, first), "the immutable object is unchanged")
}

// VerifC13Confine: whatever the key, every path handed to the file system lies inside the directory.
func VerifC13Confine(n, op int) {
	vfsReset("/data", 0)
	vfs.mode = 1
	key := verifNondetString("key", n)
	for i := 0; i < len(key); i++ {
		c := key[i]
		verifAssume(c == '.' || c == '/' || c == '\\' || c == 'a' || c == 0)
	}
	b := verifBackend()
	var err error
	switch op {
	case 0:
		err = b.Upload(context.Background(), key, []byte("x"), nil)
	case 1:
		_, err = b.Fetch(context.Background(), key)
	default:
		vfs.recOpenOK = true
		err = b.Discard(context.Background(), key)
	}
	if len(vfs.ops) == 0 {
		verifReach("refused")
		verifAssert(err != nil, "a key that reaches no file-system call is refused with an error")
	} else {
		verifReach("touched")
	}
}

// VerifC13Discard: discarding removes exactly the named object, also when immutable.
func VerifC13Discard(immutable int) {
	vfsReset("/data", 0)
	vfsMkdirDurable("/data/staging")
	vfsPutDurable("/data/staging/1-ab", []byte("bundle"), 0444, immutable == 1)
	vfsPutDurable("/data/staging/2-cd", []byte("other"), 0444, immutable == 1)
	err := verifBackend().Discard(context.Background(), "staging/1-ab")
	verifAssert(err == nil, "discard succeeds")
	verifAssert(vfsLookup("/data/staging/1-ab") == nil, "the discarded object is gone")
	verifAssert(vfsLookup("/data/staging/2-cd") != nil, "no other object is removed")
	verifReach("discarded")
}

// ---- native confirmations on the real file system (never run under the engine) ----

func verifNativeBackend() (*LocalBackend, string) {
	parent, err := os.MkdirTemp("", "verif-c13-")
	if err != nil {
		panic(err)
	}
	dir := parent + "/data"
	b, err := NewLocalBackend(context.Background(), dir, slog.New(slog.DiscardHandler))
	if err != nil {
		panic(err)
	}
	return b, parent
}

// VerifC13NativeReupload uploads an immutable object of n zero bytes, then m bytes (0x01...) over it.
func VerifC13NativeReupload(n, m int) {
	b, parent := verifNativeBackend()
	defer os.RemoveAll(parent)
	first := make([]byte, n)
	second := make([]byte, m)
	if n != m {
		for i := range second {
			second[i] = 1
		}
	}
	opts := &UploadOptions{Immutable: true}
	if err := b.Upload(context.Background(), "tile/0/000", first, opts); err != nil {
		verifFail("first immutable upload failed: " + err.Error())
	}
	err := b.Upload(context.Background(), "tile/0/000", second, opts)
	if n == m && err != nil {
		verifFail("re-uploading identical bytes to an immutable object failed")
	}
	if n != m && err == nil {
		verifFail("uploading different bytes over an immutable object succeeded")
	}
	b.Discard(context.Background(), "tile/0/000")
}

// VerifC13NativeDotKey uploads under the key "." into a backend whose directory does not exist yet.
func VerifC13NativeDotKey() {
	b, parent := verifNativeBackend()
	defer os.RemoveAll(parent)
	err := b.Upload(context.Background(), ".", []byte("x"), nil)
	fi, serr := os.Stat(parent + "/data")
	if err == nil || (serr == nil && !fi.IsDir()) {
		verifFail("file-system call outside the configured directory: the key \".\" replaced the backend directory by a file")
	}
}
