//go:build verif

package ctlog

import (
	"context"

	"filippo.io/sunlight"
)

// ---------------------------------------------------------------------------
// C02 — an SCT is returned only for an entry already in the published tree
// C07 — resubmissions get the identical SCT and leaf indexes are assigned exactly once
// Submitters and waiters run at every yield point of the sequencing round (each storage/lock
// operation, the cache writes, the pause hook), as atomic sections: addLeafToPool holds poolMu for
// its whole critical section, and the wait functions only read state published under p.done.
// ---------------------------------------------------------------------------

type verifSub struct {
	tag  string
	e    *PendingLogEntry
	f    waitEntryFunc
	src  string
	done bool
	leaf *sunlight.LogEntry
	err  error
}

type verifSched struct {
	w          *vWorld
	l          *Log
	subs       []*verifSub
	actions    int // remaining interleaved actions
	inHook     bool
	maxSubs    int
	lc         int
	pauseYield bool
	distinct   bool
}

func (s *verifSched) submit(tag string) *verifSub {
	if s.distinct {
		s.lc++ // every submission has its own length: no duplicates (used together with faults)
	}
	e := verifPending(tag, s.lc, 0, false)
	f, src := s.l.addLeafToPool(context.Background(), e, false)
	sub := &verifSub{tag: tag, e: e, f: f, src: src}
	s.subs = append(s.subs, sub)
	verifTrace("SUBMIT " + tag + " source=" + src)
	return sub
}

// poll runs the wait function if it can complete now; an acknowledgement is checked at this instant.
func (s *verifSched) poll(sub *verifSub, when string) {
	if sub.done {
		return
	}
	var leaf *sunlight.LogEntry
	var err error
	if !verifTryRun(func() { leaf, err = sub.f(context.Background()) }) {
		return
	}
	sub.done, sub.leaf, sub.err = true, leaf, err
	if err == nil {
		verifTrace("ACK " + sub.tag + " " + when)
		verifReach("ack " + when)
		s.w.checkAcks([]verifAck{{sub.e, leaf}}, when)
	}
}

func (s *verifSched) hook(inst *vInstance, op, key string) {
	if s.inHook || s.actions == 0 || s.l == nil {
		return
	}
	s.inHook = true
	switch verifChoice("interleave", 3) {
	case 1:
		s.actions--
		for _, sub := range s.subs {
			s.poll(sub, "during the round")
		}
	case 2:
		if len(s.subs) < s.maxSubs {
			s.actions--
			sub := s.submit("mid")
			s.poll(sub, "during the round")
		}
	}
	s.inHook = false
}

func sameSubmission(a, b *PendingLogEntry) bool {
	return a.IsPrecert == b.IsPrecert && verifBytesEq(a.Certificate, b.Certificate) && (!a.IsPrecert || a.IssuerKeyHash == b.IssuerKeyHash)
}

// checkDedup: equal submissions that were both acknowledged name the same leaf.
func (s *verifSched) checkDedup(strict bool) {
	for i, a := range s.subs {
		for _, b := range s.subs[i+1:] {
			if !a.done || !b.done || a.err != nil || b.err != nil {
				continue
			}
			if sameSubmission(a.e, b.e) {
				verifReach("duplicate")
				if strict {
					verifAssert(a.leaf.LeafIndex == b.leaf.LeafIndex && a.leaf.Timestamp == b.leaf.Timestamp,
						"a resubmission of an equal entry is acknowledged with a different index or timestamp")
				}
			} else {
				verifAssert(a.leaf.LeafIndex != b.leaf.LeafIndex, "two different entries are acknowledged at the same index")
			}
		}
	}
}

// VerifC02: a pre-state of n0 leaves, one submission before the round, up to `actions` interleaved
// polls / submissions (new or duplicate: the bytes are symbolic) at the yield points of the round, up
// to `faults` storage/lock failures; a second round; optional cache loss or rollback; a crash and a
// restart; a third round. Every acknowledgement is checked at its instant and again at the end.
func VerifC02(n0, faults, actions, cacheLoss, dups int) {
	w := newWorld(faults, 0)
	w.clockMode = 1
	l, inst := w.bootstrap(n0)
	ctx := context.Background()
	s := &verifSched{w: w, l: l, actions: actions, maxSubs: 3, lc: 3, distinct: dups == 0}
	if !s.distinct {
		s.lc = 2
	}
	w.onStep = s.hook
	testingOnlyPauseSequencing = func() { w.yield("pause") }
	s.submit("first")
	w.armed = true
	err := l.sequence(ctx)
	w.armed = false
	for _, sub := range s.subs {
		s.poll(sub, "after the round")
	}
	if err != nil || inst.dead {
		verifReach("fatal")
	} else {
		// a submission after the round, possibly a duplicate of an acknowledged entry
		if len(s.subs) < s.maxSubs {
			sub := s.submit("late")
			s.poll(sub, "between rounds")
		}
		s.actions = 0
		verifAssert(l.sequence(ctx) == nil, "a fault-free round fails")
		for _, sub := range s.subs {
			s.poll(sub, "after the second round")
			verifAssert(sub.done, "a submitter is still waiting after its pool was sequenced")
		}
	}
	strict := cacheLoss == 0
	s.checkDedup(strict)
	// cache loss or rollback to any earlier state, then crash + restart + another round
	if cacheLoss == 1 && len(w.cache) > 0 {
		k := verifChoice("cache-rollback", len(w.cache)+1)
		w.cache = w.cache[:k]
	}
	s.l = nil
	inst2 := w.newInstance()
	l2, lerr := LoadLog(ctx, w.config(inst2))
	verifAssert(lerr == nil, "restart after the rounds fails")
	if lerr != nil {
		return
	}
	s.l = l2
	before := len(s.subs)
	re := &verifSub{tag: "resubmit", e: s.subs[0].e}
	re.f, re.src = l2.addLeafToPool(ctx, re.e, false)
	s.subs = append(s.subs, re)
	s.submit("fresh")
	verifAssert(l2.sequence(ctx) == nil, "a round after restart fails")
	for _, sub := range s.subs[before:] {
		s.poll(sub, "after restart")
		verifAssert(sub.done, "a submitter is still waiting after its pool was sequenced")
	}
	s.checkDedup(strict)
	// every acknowledgement still holds in the final published tree
	var acks []verifAck
	for _, sub := range s.subs {
		if sub.done && sub.err == nil {
			acks = append(acks, verifAck{sub.e, sub.leaf})
		}
	}
	w.checkAcks(acks, "in the final tree")
	// leaves are assigned exactly once: distinct admitted submissions = new leaves (duplicates only after cache loss)
	final := w.published()
	distinct := 0
	for i, a := range s.subs {
		if !a.done || a.err != nil {
			continue
		}
		first := true
		for _, b := range s.subs[:i] {
			if b.done && b.err == nil && a.leaf.LeafIndex == b.leaf.LeafIndex {
				first = false
			}
		}
		if first {
			distinct++
		}
	}
	if err == nil && !inst.dead && strict && faults == 0 {
		// (a round that failed after the lock commit leaves sequenced but unacknowledged leaves behind,
		// which a resubmission legitimately duplicates)
		verifAssert(final.n == int64(n0+distinct), "the number of new leaves differs from the number of distinct acknowledged submissions")
	}
	w.auditPrefix()
	verifReach("done")
}

// VerifC07SubmitDuringRound: a submission with a new issuer (whose upload goes to the backend before
// the pool is touched) is interleaved with a WHOLE sequencing round: at any storage operation of
// addLeafToPool the sequencer may rotate and sequence the current pool (which holds another entry).
// Afterwards: one more round; every acknowledgement names an index that holds that entry, different
// entries have different indexes, a resubmission gets the same (index, timestamp), and the tree grew
// by exactly the number of distinct admitted submissions.
func VerifC07SubmitDuringRound(n0 int) {
	w := newWorld(0, 0)
	w.clockMode = 1
	l, _ := w.bootstrap(n0)
	ctx := context.Background()
	s := &verifSched{w: w, l: l, maxSubs: 8, lc: 3, distinct: true}
	z := s.submit("z")
	inSubmit, ran, inHook := true, false, false
	w.onStep = func(inst *vInstance, op, key string) {
		if !inSubmit || ran || inHook || op == "yield" {
			return
		}
		if verifNondetBool("round-now") {
			ran, inHook = true, true
			verifTrace("--- a sequencing round runs during the submission")
			verifReach("interleaved")
			verifAssert(l.sequence(ctx) == nil, "a fault-free round fails")
			inHook = false
		}
	}
	x := &verifSub{tag: "x", e: verifPending("x", 9, 1, false)}
	x.f, x.src = l.addLeafToPool(ctx, x.e, false)
	s.subs = append(s.subs, x)
	inSubmit = false
	w.onStep = nil
	verifAssert(l.sequence(ctx) == nil, "a fault-free round fails")
	for _, sub := range []*verifSub{z, x} {
		s.poll(sub, "after the rounds")
		verifAssert(sub.done && sub.err == nil, "a submission admitted to a pool is not acknowledged after its pool was sequenced")
	}
	re := &verifSub{tag: "resubmit-x", e: x.e}
	re.f, re.src = l.addLeafToPool(ctx, re.e, false)
	s.subs = append(s.subs, re)
	verifAssert(l.sequence(ctx) == nil, "a fault-free round fails")
	s.poll(re, "after the resubmission")
	verifAssert(re.done && re.err == nil, "a resubmission is not acknowledged")
	s.checkDedup(true)
	if final := w.published(); final != nil {
		verifAssert(final.n == int64(n0+2), "the number of new leaves differs from the number of distinct acknowledged submissions")
	}
	w.auditPrefix()
	verifReach("done")
}
