//go:build verif

package ctlog

import (
	"archive/tar"
	"bytes"
	"compress/gzip"
	"context"
	"crypto/ecdsa"
	"crypto/sha256"
	"encoding/base64"
	"errors"
	"io"
	"strings"

	"crawshaw.io/sqlite"
	"filippo.io/mldsa"
	"filippo.io/sunlight"
	ct "github.com/google/certificate-transparency-go"
	ctx509 "github.com/google/certificate-transparency-go/x509"
	"github.com/google/certificate-transparency-go/x509util"
	"github.com/prometheus/client_golang/prometheus"
	"golang.org/x/mod/sumdb/tlog"
)

// ===========================================================================
// The "ctlog world" (DESIGN.md §3.1): object storage, lock store, clock, dedup cache and the
// library contracts (tar, gzip, JSON, X.509 parsing, SQLite) as harness-source stubs, with
// monitors evaluated at the instant of every effect. Serves C01–C04, C06–C08, C17.
// ===========================================================================

type vObject struct {
	data      []byte
	immutable bool
	opts      UploadOptions
}

type vCheckpoint struct {
	raw  []byte
	n    int64
	hash tlog.Hash
	time int64
}

type vCacheRow struct {
	key       []byte
	timestamp int64
	index     int64
}

type vInstance struct {
	id   int
	dead bool // crashed: cut off from the world, every later operation fails without effect
}

type vWorld struct {
	name string
	key  *ecdsa.PrivateKey
	wkey *mldsa.PrivateKey
	keyH uint32 // note key hash of the RFC 6962 signer

	objects map[string]*vObject
	okeys   []string // insertion order of object keys (deterministic iteration)
	lock    map[[32]byte][]byte

	lockHist []vCheckpoint // every lock value that ever took effect
	pubHist  []vCheckpoint // every version of the "checkpoint" object that ever took effect
	discards []string

	cache       []vCacheRow // dedup cache rows (cache256)
	cacheSave   int         // savepoint: number of rows at the last Save
	cacheRow    *vCacheRow  // current row handed to a result function
	cacheFaults int
	legacy      bool

	faults           int // remaining fault budget
	crashes          int // remaining crash budget
	armed            bool
	insts            int
	clockMode        int // 0 arbitrary, 1 strictly increasing
	lastClock        int64
	skipStorageCheck bool
	tolerant         bool // tampering scenarios: immutability / discard monitors are off
	poolSize         int
	curOp            string
	armedClock       bool   // clock readings are symbolic (after the pre-state has been built)
	faultOnly        string // restrict faults to operations with this name
	parseFailOdd     bool   // certificates whose first byte is odd do not parse (names tile)

	onStep func(inst *vInstance, op, key string) // scheduler hook at every storage/lock operation
	tamper func(key string, data []byte, found bool) ([]byte, bool)
	events []string
}

var vw *vWorld

func newWorld(faults, crashes int) *vWorld {
	w := &vWorld{name: "example.com/verif", objects: map[string]*vObject{}, lock: map[[32]byte][]byte{}}
	w.key = verifNewECDSAKey()
	w.wkey = verifNewMLDSAKey()
	w.faults, w.crashes = faults, crashes
	vw = w
	timeNowUnixMilli = w.now
	testingOnlyPauseSequencing = nil
	v, err := sunlight.NewRFC6962Verifier(w.name, w.key.Public())
	if err != nil {
		panic(err)
	}
	w.keyH = v.KeyHash()
	return w
}

func (w *vWorld) now() int64 {
	if !w.armedClock {
		// the pre-state is built under a concrete, progressing clock
		w.lastClock += 1000
		return w.lastClock
	}
	t := verifNondetInt64("clock")
	verifAssume(t >= 0 && t < 1<<62)
	if w.clockMode == 1 {
		verifAssume(t > w.lastClock)
	}
	if t > w.lastClock {
		w.lastClock = t
	}
	return t
}

func (w *vWorld) config(inst *vInstance) *Config {
	return &Config{Name: w.name, Key: w.key, WitnessKey: w.wkey, PoolSize: w.poolSize, Cache: "cache.db",
		Backend: &vBackend{w: w, inst: inst}, Lock: &vLock{w: w, inst: inst}}
}

func (w *vWorld) newInstance() *vInstance {
	w.insts++
	return &vInstance{id: w.insts}
}

var errDead = errors.New("process crashed (disconnected)")
var errFault = errors.New("injected storage fault")
var errNotFound = errors.New("object not found")

// step is the common prologue of every storage / lock operation: crash point, scheduler yield.
func (w *vWorld) step(inst *vInstance, op, key string) bool {
	if inst.dead {
		return true
	}
	if w.armed && w.crashes > 0 && verifNondetBool("crash") {
		w.crashes--
		inst.dead = true
		verifTrace("CRASH before " + op + " " + key)
		return true
	}
	verifTrace(op + " " + key)
	w.curOp = op
	if w.onStep != nil {
		w.onStep(inst, op, key)
	}
	return inst.dead
}

// yield is a scheduler point that is neither a crash nor a fault point (cache writes, pause hook).
func (w *vWorld) yield(what string) {
	verifTrace("yield " + what)
	if w.onStep != nil {
		w.onStep(nil, "yield", what)
	}
}

// outcome draws the fault outcome of a write: 0 ok, 1 error and not applied, 2 error but applied.
func (w *vWorld) writeOutcome() int {
	if !w.armed || w.faults == 0 || (w.faultOnly != "" && w.faultOnly != w.curOp) {
		return 0
	}
	if !verifNondetBool("fault") {
		return 0
	}
	w.faults--
	if verifNondetBool("fault-applied") {
		verifTrace("FAULT (applied)")
		return 2
	}
	verifTrace("FAULT (not applied)")
	return 1
}

func (w *vWorld) readFault() bool {
	if !w.armed || w.faults == 0 || (w.faultOnly != "" && w.faultOnly != w.curOp) {
		return false
	}
	if verifNondetBool("fault") {
		w.faults--
		verifTrace("FAULT (read)")
		return true
	}
	return false
}

// ---- object storage ----

type vBackend struct {
	w    *vWorld
	inst *vInstance
}

func (b *vBackend) Upload(ctx context.Context, key string, data []byte, opts *UploadOptions) error {
	w := b.w
	if w.step(b.inst, "upload", key) {
		return errDead
	}
	out := w.writeOutcome()
	if out != 1 {
		w.applyUpload(key, data, opts)
	}
	if out != 0 {
		return errFault
	}
	return nil
}

func (w *vWorld) applyUpload(key string, data []byte, opts *UploadOptions) {
	data = append([]byte{}, data...)
	old, exists := w.objects[key]
	if exists && old.immutable && !w.tolerant {
		verifAssert(verifBytesEq(old.data, data), "an immutable object is rewritten with different bytes: "+key)
	}
	o := &vObject{data: data}
	if opts != nil {
		o.opts = *opts
		o.immutable = opts.Immutable
	}
	if exists && old.immutable {
		o.immutable = true
	}
	if !exists {
		w.okeys = append(w.okeys, key)
	}
	if key == "checkpoint" {
		cp := w.parseCheckpoint(data)
		verifAssert(w.inLockHistory(data), "a checkpoint became publicly readable before it was committed to the lock store")
		w.pubHist = append(w.pubHist, cp)
		w.objects[key] = o
		w.checkPublished()
		return
	}
	w.objects[key] = o
}

func (b *vBackend) Fetch(ctx context.Context, key string) ([]byte, error) {
	w := b.w
	if w.step(b.inst, "fetch", key) {
		return nil, errDead
	}
	if w.readFault() {
		return nil, errFault
	}
	o, ok := w.objects[key]
	var data []byte
	if ok {
		data = o.data
	}
	if w.tamper != nil {
		data, ok = w.tamper(key, data, ok)
	}
	if !ok {
		return nil, errNotFound
	}
	return append([]byte{}, data...), nil
}

func (b *vBackend) Discard(ctx context.Context, key string) error {
	w := b.w
	if w.step(b.inst, "discard", key) {
		return errDead
	}
	out := w.writeOutcome()
	if out != 1 {
		verifAssert(strings.HasPrefix(key, "staging/"), "something other than a staging bundle is discarded: "+key)
		// the bundle's tree size is the decimal prefix of its name
		rest := key[len("staging/"):]
		var n int64
		for i := 0; i < len(rest) && rest[i] >= '0' && rest[i] <= '9'; i++ {
			n = n*10 + int64(rest[i]-'0')
		}
		pub := w.published()
		verifAssert(pub != nil && pub.n >= n, "a staged bundle is discarded before the published checkpoint caught up with it")
		if _, ok := w.objects[key]; ok {
			delete(w.objects, key)
			w.discards = append(w.discards, key)
		}
	}
	if out != 0 {
		return errFault
	}
	return nil
}

func (b *vBackend) Metrics() []prometheus.Collector { return nil }

func (w *vWorld) published() *vCheckpoint {
	if len(w.pubHist) == 0 {
		return nil
	}
	return &w.pubHist[len(w.pubHist)-1]
}

// ---- lock store (a correct CAS register; the real ones are C05's subject) ----

type vLocked struct {
	logID [32]byte
	b     []byte
}

func (l *vLocked) Bytes() []byte { return l.b }

type vLock struct {
	w    *vWorld
	inst *vInstance
}

func (l *vLock) Fetch(ctx context.Context, logID [sha256.Size]byte) (LockedCheckpoint, error) {
	w := l.w
	if w.step(l.inst, "lock-fetch", "") {
		return nil, errDead
	}
	if w.readFault() {
		return nil, errFault
	}
	b, ok := w.lock[logID]
	if !ok {
		return nil, ErrLogNotFound
	}
	return &vLocked{logID: logID, b: append([]byte{}, b...)}, nil
}

func (l *vLock) Replace(ctx context.Context, old LockedCheckpoint, new []byte) (LockedCheckpoint, error) {
	w := l.w
	if w.step(l.inst, "lock-replace", "") {
		return nil, errDead
	}
	o := old.(*vLocked)
	out := w.writeOutcome()
	if out != 1 {
		cur, ok := w.lock[o.logID]
		if !ok || !bytes.Equal(cur, o.b) {
			verifTrace("lock-replace: CAS conflict")
			return nil, errors.New("checkpoint has changed (CAS conflict)")
		}
		w.commitLock(o.logID, new)
	}
	if out != 0 {
		return nil, errFault
	}
	return &vLocked{logID: o.logID, b: append([]byte{}, new...)}, nil
}

func (l *vLock) Create(ctx context.Context, logID [sha256.Size]byte, new []byte) error {
	w := l.w
	if w.step(l.inst, "lock-create", "") {
		return errDead
	}
	out := w.writeOutcome()
	if out != 1 {
		if _, ok := w.lock[logID]; ok {
			return errors.New("checkpoint already exists")
		}
		w.commitLock(logID, new)
	}
	if out != 0 {
		return errFault
	}
	return nil
}

func (w *vWorld) commitLock(logID [32]byte, raw []byte) {
	raw = append([]byte{}, raw...)
	cp := w.parseCheckpoint(raw)
	for _, e := range w.lockHist {
		verifAssert(cp.n >= e.n, "a committed checkpoint is smaller than an earlier one")
		verifAssert(cp.time > e.time, "signed tree-head timestamps do not strictly increase")
		if cp.n == e.n {
			verifAssert(cp.hash == e.hash, "two committed checkpoints of the same size have different roots")
		}
	}
	w.lockHist = append(w.lockHist, cp)
	w.lock[logID] = raw
	verifTraceInt("COMMIT size", cp.n)
}

func (w *vWorld) inLockHistory(raw []byte) bool {
	for _, e := range w.lockHist {
		if bytes.Equal(e.raw, raw) {
			return true
		}
	}
	return false
}

// parseCheckpoint independently extracts (size, root, timestamp) from a signed checkpoint.
func (w *vWorld) parseCheckpoint(raw []byte) vCheckpoint {
	cp := vCheckpoint{raw: raw, time: -1}
	s := string(raw)
	sep := strings.Index(s, "\n\n")
	verifAssert(sep >= 0, "a committed or published checkpoint is not a signed note")
	if sep < 0 {
		return cp
	}
	text := s[:sep+1]
	lines := strings.Split(text, "\n")
	verifAssert(len(lines) == 4 && lines[0] == w.name && lines[3] == "", "checkpoint body is origin, size, root hash")
	if len(lines) != 4 {
		return cp
	}
	for i := 0; i < len(lines[1]); i++ {
		cp.n = cp.n*10 + int64(lines[1][i]-'0')
	}
	h, err := base64.StdEncoding.DecodeString(lines[2])
	verifAssert(err == nil && len(h) == 32, "checkpoint root hash is 32 bytes of base64")
	copy(cp.hash[:], h)
	for _, l := range strings.Split(s[sep+2:], "\n") {
		f := strings.Split(l, " ")
		if len(f) != 3 || f[1] != w.name {
			continue
		}
		sig, err := base64.StdEncoding.DecodeString(f[2])
		if err != nil || len(sig) < 12 {
			continue
		}
		if uint32(sig[0])<<24|uint32(sig[1])<<16|uint32(sig[2])<<8|uint32(sig[3]) != w.keyH {
			continue
		}
		var t uint64
		for _, b := range sig[4:12] {
			t = t<<8 | uint64(b)
		}
		cp.time = int64(t)
	}
	verifAssert(cp.time >= 0, "checkpoint carries the log's RFC 6962 signature with a timestamp")
	return cp
}

// ---------------------------------------------------------------------------
// Independent oracles
// ---------------------------------------------------------------------------

// verifLeaf is the ground-truth record of one sequenced leaf, read back from storage.
type verifLeaf struct {
	e *sunlight.LogEntry
}

// refMerkleTreeLeaf: independent TLS-presentation encoder (RFC 6962 §3.4) with the leaf-index extension.
func refMerkleTreeLeaf(e *sunlight.LogEntry) []byte {
	var b []byte
	b = append(b, 0, 0)
	for s := 56; s >= 0; s -= 8 {
		b = append(b, byte(uint64(e.Timestamp)>>uint(s)))
	}
	if !e.IsPrecert {
		b = append(b, 0, 0)
	} else {
		b = append(b, 0, 1)
		b = append(b, e.IssuerKeyHash[:]...)
	}
	l := len(e.Certificate)
	b = append(b, byte(l>>16), byte(l>>8), byte(l))
	b = append(b, e.Certificate...)
	b = append(b, 0, 8, 0, 0, 5)
	for s := 32; s >= 0; s -= 8 {
		b = append(b, byte(uint64(e.LeafIndex)>>uint(s)))
	}
	return b
}

// refMTH: RFC 6962 §2.1 Merkle Tree Hash by the textbook recursion over leaf hashes.
func refMTH(leafHashes [][32]byte) [32]byte {
	n := len(leafHashes)
	if n == 0 {
		return sha256.Sum256(nil)
	}
	if n == 1 {
		return leafHashes[0]
	}
	k := 1
	for k*2 < n {
		k *= 2
	}
	l, r := refMTH(leafHashes[:k]), refMTH(leafHashes[k:])
	var in [65]byte
	in[0] = 1
	copy(in[1:33], l[:])
	copy(in[33:], r[:])
	return sha256.Sum256(in[:])
}

func refLeafHash(e *sunlight.LogEntry) [32]byte {
	return sha256.Sum256(append([]byte{0}, refMerkleTreeLeaf(e)...))
}

// ungzip undoes the gzip contract (see the stubs below).
func verifUngzip(b []byte) ([]byte, bool) {
	if len(b) < 2 || b[0] != 'G' || b[1] != 'Z' {
		return nil, false
	}
	return b[2:], true
}

// verifGzip applies the gzip contract.
func verifGzip(b []byte) []byte { return append([]byte("GZ"), b...) }

// readLeaves parses the data tiles of storage for the first n leaves; ok=false if something is missing.
func (w *vWorld) readLeaves(n int64) ([]*sunlight.LogEntry, bool) {
	var out []*sunlight.LogEntry
	for start := int64(0); start < n; start += sunlight.TileWidth {
		width := int64(sunlight.TileWidth)
		if n-start < width {
			width = n - start
		}
		// a full tile, or the partial tile of exactly this width, or a wider partial one
		var raw []byte
		found := false
		for wd := width; wd <= sunlight.TileWidth && !found; wd++ {
			key := sunlight.TilePath(tlog.Tile{H: sunlight.TileHeight, L: -1, N: start / sunlight.TileWidth, W: int(wd)})
			if o, ok := w.objects[key]; ok {
				raw, found = verifUngzip(o.data)
			}
		}
		if !found {
			return nil, false
		}
		for i := int64(0); i < width; i++ {
			e, rest, err := sunlight.ReadTileLeaf(raw)
			if err != nil {
				return nil, false
			}
			raw = rest
			out = append(out, e)
		}
	}
	return out, true
}

// auditPrefix: every checkpoint in either history commits to a prefix of the final leaf sequence.
func (w *vWorld) auditPrefix() {
	var maxN int64
	for _, c := range w.lockHist {
		if c.n > maxN {
			maxN = c.n
		}
	}
	leaves, ok := w.readLeaves(maxN)
	verifAssert(ok, "after recovery the data tiles of the committed tree are readable")
	if !ok {
		return
	}
	hashes := make([][32]byte, len(leaves))
	idxOK := true
	for i, e := range leaves {
		idxOK = verifAnd(idxOK, e.LeafIndex == int64(i))
		hashes[i] = refLeafHash(e)
	}
	verifAssert(idxOK, "leaf i carries index i")
	check := func(c vCheckpoint, which string) {
		root := refMTH(hashes[:c.n])
		verifAssert(root == [32]byte(c.hash), which+" checkpoint root is not the Merkle tree hash of the first N leaves")
		tsOK := true
		for i := int64(0); i < c.n; i++ {
			tsOK = verifAnd(tsOK, leaves[i].Timestamp <= c.time)
		}
		verifAssert(tsOK, "a leaf carries a timestamp later than a tree head covering it")
	}
	for _, c := range w.lockHist {
		check(c, "committed")
	}
	for _, c := range w.pubHist {
		check(c, "published")
	}
	verifReach("audited")
}

// ---------------------------------------------------------------------------
// Library contracts as harness-source stubs
// ---------------------------------------------------------------------------

// --- compress/gzip: compress(x) = "GZ" ‖ x; anything else fails to decompress ---

type vGzipW struct{ w io.Writer }
type vGzipR struct {
	data []byte
	pos  int
}

var vGzipWriters = map[*gzip.Writer]*vGzipW{}
var vGzipReaders = map[*gzip.Reader]*vGzipR{}

//verif:stub compress/gzip.NewWriter
func verifStubGzipNewWriter(w io.Writer) *gzip.Writer {
	z := new(gzip.Writer)
	vGzipWriters[z] = &vGzipW{w: w}
	w.Write([]byte("GZ"))
	return z
}

//verif:stub (*compress/gzip.Writer).Write
func verifStubGzipWrite(z *gzip.Writer, p []byte) (int, error) { return vGzipWriters[z].w.Write(p) }

//verif:stub (*compress/gzip.Writer).Close
func verifStubGzipClose(z *gzip.Writer) error { delete(vGzipWriters, z); return nil }

//verif:stub compress/gzip.NewReader
func verifStubGzipNewReader(r io.Reader) (*gzip.Reader, error) {
	b, err := io.ReadAll(r)
	if err != nil {
		return nil, err
	}
	raw, ok := verifUngzip(b)
	if !ok {
		return nil, gzip.ErrHeader
	}
	z := new(gzip.Reader)
	vGzipReaders[z] = &vGzipR{data: raw}
	return z, nil
}

//verif:stub (*compress/gzip.Reader).Read
func verifStubGzipRead(z *gzip.Reader, p []byte) (int, error) {
	r := vGzipReaders[z]
	if r.pos >= len(r.data) {
		return 0, io.EOF
	}
	n := copy(p, r.data[r.pos:])
	r.pos += n
	return n, nil
}

// --- archive/tar: a written archive reads back the same (name, PAX records, data) sequence ---
// layout per member: u32 name length, name, u32 opts length, opts, u32 data length, data

type vTarW struct {
	w       io.Writer
	pending int
}
type vTarR struct {
	data []byte
	pos  int
	cur  []byte
	cpos int
	err  error
}

var vTarWriters = map[*tar.Writer]*vTarW{}
var vTarReaders = map[*tar.Reader]*vTarR{}

func vU32(n int) []byte { return []byte{byte(n >> 24), byte(n >> 16), byte(n >> 8), byte(n)} }

//verif:stub archive/tar.NewWriter
func verifStubTarNewWriter(w io.Writer) *tar.Writer {
	t := new(tar.Writer)
	vTarWriters[t] = &vTarW{w: w}
	return t
}

//verif:stub (*archive/tar.Writer).WriteHeader
func verifStubTarWriteHeader(t *tar.Writer, h *tar.Header) error {
	tw := vTarWriters[t]
	if tw.pending != 0 {
		return errors.New("tar: missed writing bytes of the previous member")
	}
	opts := h.PAXRecords["SUNLIGHT.opts"]
	tw.w.Write(vU32(len(h.Name)))
	tw.w.Write([]byte(h.Name))
	tw.w.Write(vU32(len(opts)))
	tw.w.Write([]byte(opts))
	tw.w.Write(vU32(int(h.Size)))
	tw.pending = int(h.Size)
	return nil
}

//verif:stub (*archive/tar.Writer).Write
func verifStubTarWrite(t *tar.Writer, p []byte) (int, error) {
	tw := vTarWriters[t]
	if len(p) > tw.pending {
		return 0, tar.ErrWriteTooLong
	}
	tw.pending -= len(p)
	return tw.w.Write(p)
}

//verif:stub (*archive/tar.Writer).Close
func verifStubTarClose(t *tar.Writer) error {
	if vTarWriters[t].pending != 0 {
		return errors.New("tar: missed writing bytes")
	}
	return nil
}

//verif:stub archive/tar.NewReader
func verifStubTarNewReader(r io.Reader) *tar.Reader {
	t := new(tar.Reader)
	b, err := io.ReadAll(r)
	vTarReaders[t] = &vTarR{data: b, err: err}
	return t
}

func (r *vTarR) u32() (int, bool) {
	if r.pos+4 > len(r.data) {
		return 0, false
	}
	n := int(r.data[r.pos])<<24 | int(r.data[r.pos+1])<<16 | int(r.data[r.pos+2])<<8 | int(r.data[r.pos+3])
	r.pos += 4
	if n < 0 || r.pos+n > len(r.data) {
		return 0, false
	}
	return n, true
}

//verif:stub (*archive/tar.Reader).Next
func verifStubTarNext(t *tar.Reader) (*tar.Header, error) {
	r := vTarReaders[t]
	if r.err != nil {
		return nil, r.err
	}
	if r.pos == len(r.data) {
		return nil, io.EOF
	}
	n, ok := r.u32()
	if !ok {
		return nil, tar.ErrHeader
	}
	name := string(r.data[r.pos : r.pos+n])
	r.pos += n
	n, ok = r.u32()
	if !ok {
		return nil, tar.ErrHeader
	}
	opts := string(r.data[r.pos : r.pos+n])
	r.pos += n
	n, ok = r.u32()
	if !ok {
		return nil, tar.ErrHeader
	}
	r.cur, r.cpos = r.data[r.pos:r.pos+n], 0
	r.pos += n
	return &tar.Header{Name: name, Size: int64(n), PAXRecords: map[string]string{"SUNLIGHT.opts": opts}}, nil
}

//verif:stub (*archive/tar.Reader).Read
func verifStubTarRead(t *tar.Reader, p []byte) (int, error) {
	r := vTarReaders[t]
	if r.cpos >= len(r.cur) {
		return 0, io.EOF
	}
	n := copy(p, r.cur[r.cpos:])
	r.cpos += n
	return n, nil
}

// --- encoding/json: Unmarshal(Marshal(v)) = v for UploadOptions; names-tile lines are a function of the entry ---

//verif:stub encoding/json.Marshal
func verifStubJSONMarshal(v any) ([]byte, error) {
	if b, ok := c09JSONMarshal(v); ok {
		return b, nil
	}
	switch x := v.(type) {
	case *UploadOptions:
		b := []byte("O")
		if x.Compressed {
			b = append(b, 'c')
		} else {
			b = append(b, '-')
		}
		if x.Immutable {
			b = append(b, 'i')
		} else {
			b = append(b, '-')
		}
		return append(b, x.ContentType...), nil
	case *sunlight.TrimmedEntry:
		b := []byte("{T")
		for s := 56; s >= 0; s -= 8 {
			b = append(b, byte(uint64(x.Timestamp)>>uint(s)))
		}
		b = append(b, x.Subject.CommonName...)
		return append(b, '}'), nil
	}
	return nil, errors.New("json: unsupported type in model")
}

//verif:stub encoding/json.Unmarshal
func verifStubJSONUnmarshal(data []byte, v any) error {
	if handled, err := c09JSONUnmarshal(data, v); handled {
		return err
	}
	o, ok := v.(*UploadOptions)
	if !ok || len(data) < 3 || data[0] != 'O' {
		return errors.New("json: cannot unmarshal")
	}
	if (data[1] != 'c' && data[1] != '-') || (data[2] != 'i' && data[2] != '-') {
		return errors.New("json: cannot unmarshal")
	}
	o.Compressed = data[1] == 'c'
	o.Immutable = data[2] == 'i'
	o.ContentType = string(data[3:])
	return nil
}

// --- X.509 parsing of the logged certificate: a function of the certificate bytes ---

//verif:stub github.com/google/certificate-transparency-go/x509.ParseCertificate
func verifStubParseCertificate(der []byte) (*ctx509.Certificate, error) {
	if vw != nil && vw.parseFailOdd && len(der) > 0 && der[0]&1 == 1 {
		return nil, errors.New("x509: malformed certificate")
	}
	c := &ctx509.Certificate{}
	c.Subject.CommonName = "cn"
	return c, nil
}

//verif:stub github.com/google/certificate-transparency-go/x509util.NewPEMCertPool
func verifStubNewPEMCertPool() *x509util.PEMCertPool { return new(x509util.PEMCertPool) }

//verif:stub (*github.com/google/certificate-transparency-go/x509util.PEMCertPool).AppendCertsFromPEM
func verifStubAppendCertsFromPEM(p *x509util.PEMCertPool, pem []byte) bool { return true }

//verif:stub (*github.com/google/certificate-transparency-go/x509util.PEMCertPool).RawCertificates
func verifStubRawCertificates(p *x509util.PEMCertPool) []*ctx509.Certificate { return nil }

// --- RFC 6962 STH signature input: fixed 50-byte layout ---

//verif:stub github.com/google/certificate-transparency-go.SerializeSTHSignatureInput
func verifStubSerializeSTH(sth ct.SignedTreeHead) ([]byte, error) {
	if sth.Version != ct.V1 {
		return nil, errors.New("unsupported STH version")
	}
	b := []byte{0, 1}
	for s := 56; s >= 0; s -= 8 {
		b = append(b, byte(sth.Timestamp>>uint(s)))
	}
	for s := 56; s >= 0; s -= 8 {
		b = append(b, byte(sth.TreeSize>>uint(s)))
	}
	return append(b, sth.SHA256RootHash[:]...), nil
}

// --- SQLite dedup cache: a table of (key, timestamp, index); a savepoint is atomic ---

//verif:stub crawshaw.io/sqlite.OpenConn
func verifStubOpenConn(path string, flags ...sqlite.OpenFlags) (*sqlite.Conn, error) {
	return new(sqlite.Conn), nil
}

//verif:stub (*crawshaw.io/sqlite.Conn).Close
func verifStubConnClose(c *sqlite.Conn) error { return nil }

//verif:stub crawshaw.io/sqlite/sqlitex.ExecTransient
func verifStubExecTransient(conn *sqlite.Conn, query string, resultFn func(stmt *sqlite.Stmt) error, args ...interface{}) error {
	if strings.Contains(query, "sqlite_master") && vw.legacy && resultFn != nil {
		return resultFn(new(sqlite.Stmt))
	}
	return nil
}

//verif:stub crawshaw.io/sqlite/sqlitex.Exec
func verifStubExec(conn *sqlite.Conn, query string, resultFn func(stmt *sqlite.Stmt) error, args ...interface{}) error {
	if handled, err := c05Exec(query, resultFn, args); handled {
		return err
	}
	w := vw
	switch {
	case strings.HasPrefix(query, "SELECT timestamp, leaf_index FROM cache256"):
		key := args[0].([]byte)
		for i := range w.cache {
			if verifBytesEq(w.cache[i].key, key) {
				w.cacheRow = &w.cache[i]
				return resultFn(new(sqlite.Stmt))
			}
		}
		return nil
	case strings.HasPrefix(query, "SELECT timestamp, leaf_index FROM cache "):
		return nil
	case strings.HasPrefix(query, "INSERT INTO cache256"):
		w.yield("cache-insert")
		if w.cacheFaults > 0 && verifNondetBool("cache-put-fails") {
			w.cacheFaults--
			return errors.New("sqlite: constraint failed")
		}
		key := append([]byte{}, args[0].([]byte)...)
		for i := range w.cache {
			if verifBytesEq(w.cache[i].key, key) {
				return errors.New("sqlite: UNIQUE constraint failed")
			}
		}
		w.cache = append(w.cache, vCacheRow{key: key, timestamp: args[1].(int64), index: args[2].(int64)})
		return nil
	}
	return errors.New("sqlite model: unsupported query")
}

//verif:stub (*crawshaw.io/sqlite.Stmt).GetInt64
func verifStubStmtGetInt64(s *sqlite.Stmt, col string) int64 {
	if col == "leaf_index" {
		return vw.cacheRow.index
	}
	return vw.cacheRow.timestamp
}

//verif:stub crawshaw.io/sqlite/sqlitex.Save
func verifStubSave(conn *sqlite.Conn) func(*error) {
	w := vw
	mark := len(w.cache)
	return func(err *error) {
		if *err != nil {
			w.cache = w.cache[:mark]
		}
		w.yield("cache-commit")
	}
}

// ---------------------------------------------------------------------------
// Scenario helpers
// ---------------------------------------------------------------------------

// pending builds a submission with symbolic certificate bytes of length lc and `issuers` one-byte issuers.
func verifPending(tag string, lc, issuers int, precert bool) *PendingLogEntry {
	e := &PendingLogEntry{Certificate: verifNondetBytes(tag+"-cert", lc), IsPrecert: precert}
	if precert {
		copy(e.IssuerKeyHash[:], verifNondetBytes(tag+"-ikh", 32))
		e.PreCertificate = verifNondetBytes(tag+"-pre", 1)
	}
	for i := 0; i < issuers; i++ {
		e.Issuers = append(e.Issuers, verifNondetBytes(tag+"-issuer", 1))
	}
	return e
}

// concretePending builds the i-th pre-state submission (3-byte certificates, distinct).
func concretePending(i int) *PendingLogEntry {
	return &PendingLogEntry{Certificate: []byte{0xC0, byte(i >> 8), byte(i)}}
}

// bootstrap creates the log and sequences n0 concrete entries without faults; returns the loaded log.
func (w *vWorld) bootstrap(n0 int) (*Log, *vInstance) {
	w.armed = false
	mode := w.clockMode
	w.clockMode = 1
	inst := w.newInstance()
	cfg := w.config(inst)
	ctx := context.Background()
	if err := CreateLog(ctx, cfg); err != nil {
		panic("bootstrap: CreateLog failed")
	}
	l, err := LoadLog(ctx, cfg)
	if err != nil {
		panic("bootstrap: LoadLog failed")
	}
	for done := 0; done < n0; {
		batch := n0 - done
		if batch > 200 {
			batch = 200
		}
		for i := 0; i < batch; i++ {
			l.addLeafToPool(ctx, concretePending(done+i), false)
		}
		if err := l.sequence(ctx); err != nil {
			panic("bootstrap: sequence failed")
		}
		done += batch
	}
	w.clockMode = mode
	w.armedClock = true
	return l, inst
}

// ---------------------------------------------------------------------------
// C04 monitor: the published checkpoint is fully backed by exact objects
// ---------------------------------------------------------------------------

// refTileLeaf: independent encoder of the Static CT TileLeaf structure.
func refTileLeaf(e *sunlight.LogEntry) []byte {
	var b []byte
	for s := 56; s >= 0; s -= 8 {
		b = append(b, byte(uint64(e.Timestamp)>>uint(s)))
	}
	if !e.IsPrecert {
		b = append(b, 0, 0)
	} else {
		b = append(b, 0, 1)
		b = append(b, e.IssuerKeyHash[:]...)
	}
	l := len(e.Certificate)
	b = append(b, byte(l>>16), byte(l>>8), byte(l))
	b = append(b, e.Certificate...)
	b = append(b, 0, 8, 0, 0, 5)
	for s := 32; s >= 0; s -= 8 {
		b = append(b, byte(uint64(e.LeafIndex)>>uint(s)))
	}
	if e.IsPrecert {
		l := len(e.PreCertificate)
		b = append(b, byte(l>>16), byte(l>>8), byte(l))
		b = append(b, e.PreCertificate...)
	}
	fl := 32 * len(e.ChainFingerprints)
	b = append(b, byte(fl>>8), byte(fl))
	for _, f := range e.ChainFingerprints {
		b = append(b, f[:]...)
	}
	return b
}

func refNamesLine(e *sunlight.LogEntry) []byte {
	der := e.Certificate
	if e.IsPrecert {
		der = e.PreCertificate
	}
	if vw.parseFailOdd && len(der) > 0 && der[0]&1 == 1 {
		return nil
	}
	b := []byte("{T")
	for s := 56; s >= 0; s -= 8 {
		b = append(b, byte(uint64(e.Timestamp)>>uint(s)))
	}
	b = append(b, "cn}"...)
	return append(b, '\n')
}

// tileObject finds the object for the tile at (level, index) with at least `width` entries: the tile of
// exactly that width, or a wider one (a later partial or the full tile).
func (w *vWorld) tileObject(level int, index int64, width int) ([]byte, int, bool) {
	for wd := width; wd <= sunlight.TileWidth; wd++ {
		key := sunlight.TilePath(tlog.Tile{H: sunlight.TileHeight, L: level, N: index, W: wd})
		if o, ok := w.objects[key]; ok {
			return o.data, wd, true
		}
	}
	return nil, 0, false
}

// subtreeHash: MTH of leaves [j*2^h, (j+1)*2^h).
func subtreeHash(hashes [][32]byte, h uint, j int64) [32]byte {
	return refMTH(hashes[j<<h : (j+1)<<h])
}

func (w *vWorld) checkPublished() {
	if w.skipStorageCheck {
		return
	}
	w.checkBacked(w.published())
}

// checkBacked asserts that storage holds, byte for byte, every object the tree of checkpoint pub needs.
func (w *vWorld) checkBacked(pub *vCheckpoint) {
	n := pub.n
	leaves, ok := w.readLeaves(n)
	verifAssert(ok, "the published checkpoint is not backed by readable data tiles")
	if !ok {
		return
	}
	hashes := make([][32]byte, n)
	idxOK, tsOK := true, true
	for i, e := range leaves {
		idxOK = verifAnd(idxOK, e.LeafIndex == int64(i))
		tsOK = verifAnd(tsOK, e.Timestamp <= pub.time)
		hashes[i] = refLeafHash(e)
		for _, fp := range e.ChainFingerprints {
			o, ok := w.objects["issuer/"+hexString(fp[:])]
			verifAssert(ok, "a referenced issuer is missing from storage")
			if ok {
				verifAssert(sha256.Sum256(o.data) == fp, "an issuer object does not hash to its fingerprint")
			}
		}
	}
	verifAssert(idxOK, "leaf i does not carry index i")
	verifAssert(tsOK, "a leaf is later than the published tree head")
	verifAssert(refMTH(hashes) == [32]byte(pub.hash), "the published root is not the Merkle tree hash of the stored leaves")
	// data and names tiles: exact bytes
	for start := int64(0); start < n; start += sunlight.TileWidth {
		width := n - start
		if width > sunlight.TileWidth {
			width = sunlight.TileWidth
		}
		var wantData, wantNames []byte
		for i := start; i < start+width; i++ {
			wantData = append(wantData, refTileLeaf(leaves[i])...)
			wantNames = append(wantNames, refNamesLine(leaves[i])...)
		}
		for _, lv := range []int{-1, -2} {
			got, wd, ok := w.tileObject(lv, start/sunlight.TileWidth, int(width))
			verifAssert(ok, "a data or names tile of the published tree is missing")
			if !ok {
				continue
			}
			raw, okz := verifUngzip(got)
			verifAssert(okz, "a data or names tile is not gzip-compressed")
			want := wantData
			if lv == -2 {
				want = wantNames
			}
			if wd == int(width) {
				verifAssert(verifBytesEq(raw, want), "a data or names tile does not hold exactly the layout's bytes")
			} else {
				verifAssert(len(raw) >= len(want) && verifBytesEq(raw[:len(want)], want), "a wider tile does not extend the layout's bytes")
			}
		}
	}
	// hash tiles at every level
	for level := 0; level < 8; level++ {
		h := uint(8 * level)
		nodes := n >> h
		if nodes == 0 {
			break
		}
		for t := int64(0); t*sunlight.TileWidth < nodes; t++ {
			width := nodes - t*sunlight.TileWidth
			if width > sunlight.TileWidth {
				width = sunlight.TileWidth
			}
			got, _, ok := w.tileObject(level, t, int(width))
			verifAssert(ok, "a hash tile of the published tree is missing")
			if !ok {
				continue
			}
			verifAssert(len(got) >= int(width)*32, "a hash tile is too short")
			var want []byte
			for j := int64(0); j < width; j++ {
				sh := subtreeHash(hashes, h, t*sunlight.TileWidth+j)
				want = append(want, sh[:]...)
			}
			if len(got) >= len(want) {
				verifAssert(verifBytesEq(got[:len(want)], want), "a hash tile does not hold the tree's node hashes")
			}
		}
	}
}

func hexString(b []byte) string {
	const d = "0123456789abcdef"
	out := make([]byte, 0, 2*len(b))
	for _, c := range b {
		out = append(out, d[c>>4], d[c&15])
	}
	return string(out)
}
