//go:build verif

package ctlog

import (
	"context"
	"errors"

	"golang.org/x/mod/sumdb/tlog"
)

// ---------------------------------------------------------------------------
// C06 — concurrent, stale or misconfigured instances cannot fork a log
// ---------------------------------------------------------------------------

// VerifC06TwoInstances: two instances with the same key loaded from the same lock store and object
// storage; at any storage/lock operation of A's round, B runs a whole round of its own (and, with
// rounds2 = 1, A then tries another round). The lock-store monitors (one chain, monotone) stay on.
func VerifC06TwoInstances(n0, rounds2 int) {
	w := newWorld(0, 0)
	w.clockMode = 1
	lA, _ := w.bootstrap(n0)
	ctx := context.Background()
	lB, err := LoadLog(ctx, w.config(w.newInstance()))
	if err != nil {
		panic("second instance failed to load")
	}
	subA := &verifSub{tag: "A", e: verifPending("A", 2, 0, false)}
	subA.f, subA.src = lA.addLeafToPool(ctx, subA.e, false)
	subB := &verifSub{tag: "B", e: verifPending("B", 4, 0, false)}
	subB.f, subB.src = lB.addLeafToPool(ctx, subB.e, false)
	var errB error
	ranB, inB := false, false
	w.onStep = func(inst *vInstance, op, key string) {
		if ranB || inB || op == "yield" {
			return
		}
		if verifNondetBool("B-runs-now") {
			inB = true
			verifTrace("--- instance B round begins")
			errB = lB.sequence(ctx)
			verifTrace("--- instance B round ends")
			inB = false
			ranB = true
		}
	}
	before := len(w.lockHist)
	errA := lA.sequence(ctx)
	w.onStep = nil
	if !ranB {
		errB = lB.sequence(ctx)
		ranB = true
	}
	pollNow(subA)
	pollNow(subB)
	verifAssert(subA.done && subB.done, "a submitter is stranded")
	commits := len(w.lockHist) - before
	verifAssert(commits == 1, "exactly one of two instances extending the same checkpoint commits")
	winners := 0
	if errA == nil {
		winners++
		verifAssert(subA.err == nil, "the winning instance did not acknowledge its entry")
	} else {
		verifReach("A-lost")
		verifAssert(errors.Is(errA, errFatal), "the losing instance does not stop with the fatal error")
		verifAssert(subA.err != nil, "the losing instance acknowledged an entry from the round it lost")
	}
	if errB == nil {
		winners++
		verifAssert(subB.err == nil, "the winning instance did not acknowledge its entry")
	} else {
		verifReach("B-lost")
		verifAssert(errors.Is(errB, errFatal), "the losing instance does not stop with the fatal error")
		verifAssert(subB.err != nil, "the losing instance acknowledged an entry from the round it lost")
	}
	verifAssert(winners == 1, "exactly one instance wins the round")
	var acks []verifAck
	for _, s := range []*verifSub{subA, subB} {
		if s.err == nil {
			acks = append(acks, verifAck{s.e, s.leaf})
		}
	}
	w.checkAcks(acks, "after the contended round")
	if rounds2 == 1 {
		// the loser keeps failing, the winner keeps working
		loser, winner := lA, lB
		if errA == nil {
			loser, winner = lB, lA
		}
		s2 := &verifSub{tag: "again", e: verifPending("again", 5, 0, false)}
		s2.f, s2.src = loser.addLeafToPool(ctx, s2.e, false)
		e2 := loser.sequence(ctx)
		pollNow(s2)
		verifAssert(e2 != nil && errors.Is(e2, errFatal) && s2.done && s2.err != nil, "a stale instance sequenced another round")
		s3 := &verifSub{tag: "winner", e: verifPending("winner", 6, 0, false)}
		s3.f, s3.src = winner.addLeafToPool(ctx, s3.e, false)
		verifAssert(winner.sequence(ctx) == nil, "the winning instance cannot continue")
		pollNow(s3)
		verifAssert(s3.done && s3.err == nil, "the winning instance does not acknowledge")
	}
	w.auditPrefix()
	verifReach("done")
}

// VerifC06Startup: creation over an existing log and every refused start-up state.
// state: 0 create over existing lock entry; 1 create over an existing published checkpoint (lock entry missing);
// 2 published checkpoint ahead of the lock store (stale lock database); 3 same size, different root;
// 4 published checkpoint signed by a foreign key; 5 published checkpoint of a foreign origin; 6 lock entry missing;
// 7 published checkpoint missing; 8 healthy (sanity).
func VerifC06Startup(state, n0 int) {
	w := newWorld(0, 0)
	w.clockMode = 1
	l, _ := w.bootstrap(n0)
	ctx := context.Background()
	logID := l.logID
	prevLock := append([]byte{}, w.lock[logID]...)
	// one more round so that an older checkpoint exists
	f, _ := l.addLeafToPool(ctx, verifPending("x", 2, 0, false), false)
	if l.sequence(ctx) != nil {
		panic("setup round failed")
	}
	f(ctx)
	cfg := w.config(w.newInstance())
	objectsBefore := len(w.okeys)
	locksBefore := len(w.lockHist)
	switch state {
	case 0:
		err := CreateLog(ctx, cfg)
		verifAssert(errors.Is(err, ErrLogExists), "creating a log over an existing one is not refused with ErrLogExists")
	case 1:
		delete(w.lock, logID)
		err := CreateLog(ctx, cfg)
		verifAssert(err != nil, "creating a log over an existing published checkpoint is not refused")
	case 2:
		w.lock[logID] = prevLock
		_, err := LoadLog(ctx, cfg)
		verifAssert(err != nil, "an instance starts although the published checkpoint is ahead of the lock store")
	case 3:
		cur := w.lockHist[len(w.lockHist)-1]
		var other tlog.Hash
		copy(other[:], verifNondetBytes("root", 32))
		verifAssume(other != cur.hash)
		forged, err := signTreeHead(cfg, treeWithTimestamp{Tree: tlog.Tree{N: cur.n, Hash: other}, Time: cur.time})
		if err != nil {
			panic("signing failed")
		}
		w.objects["checkpoint"].data = forged
		_, err = LoadLog(ctx, cfg)
		verifAssert(err != nil, "an instance starts although the published checkpoint has the same size and a different root")
	case 4:
		cur := w.lockHist[len(w.lockHist)-1]
		foreign := *cfg
		foreign.Key = verifNewECDSAKey()
		forged, err := signTreeHead(&foreign, treeWithTimestamp{Tree: tlog.Tree{N: cur.n, Hash: cur.hash}, Time: cur.time})
		if err != nil {
			panic("signing failed")
		}
		w.objects["checkpoint"].data = forged
		_, err = LoadLog(ctx, cfg)
		verifAssert(err != nil, "an instance starts although the published checkpoint does not verify under the configured key")
	case 5:
		cur := w.lockHist[len(w.lockHist)-1]
		foreign := *cfg
		foreign.Name = "other.example/log"
		forged, err := signTreeHead(&foreign, treeWithTimestamp{Tree: tlog.Tree{N: cur.n, Hash: cur.hash}, Time: cur.time})
		if err != nil {
			panic("signing failed")
		}
		w.objects["checkpoint"].data = forged
		_, err = LoadLog(ctx, cfg)
		verifAssert(err != nil, "an instance starts although the published checkpoint carries a foreign origin")
	case 6:
		delete(w.lock, logID)
		_, err := LoadLog(ctx, cfg)
		verifAssert(err != nil, "an instance starts without a lock entry")
	case 7:
		delete(w.objects, "checkpoint")
		_, err := LoadLog(ctx, cfg)
		verifAssert(err != nil, "an instance starts without a published checkpoint")
	default:
		_, err := LoadLog(ctx, cfg)
		verifAssert(err == nil, "a healthy log does not load")
	}
	verifAssert(len(w.lockHist) == locksBefore, "a refused start-up wrote to the lock store")
	verifAssert(len(w.okeys) == objectsBefore, "a refused start-up created objects")
	verifReach("checked")
}
