//go:build verif

package ctlog

import (
	"context"
	"errors"

	"filippo.io/sunlight"
)

// ---------------------------------------------------------------------------
// C03 — a crash at any point of sequencing or recovery is recoverable without loss
// C04 — object storage is always a complete, exact rendering of the leaf sequence
// (the C04 monitors live in the world: immutable objects, discards, checkBacked at every publication)
// ---------------------------------------------------------------------------

type verifAck struct {
	sub  *PendingLogEntry
	leaf *sunlight.LogEntry
}

// submitShape adds one submission of the given shape: 0 certificate, 1 precertificate,
// 2 certificate with one issuer, 3 certificate with two issuers.
func submitShape(l *Log, tag string, shape int) (*PendingLogEntry, waitEntryFunc) {
	var e *PendingLogEntry
	switch shape {
	case 1:
		e = verifPending(tag, 2, 0, true)
	case 2:
		e = verifPending(tag, 2, 1, false)
	case 3:
		e = verifPending(tag, 2, 2, false)
	default:
		e = verifPending(tag, 2, 0, false)
	}
	f, _ := l.addLeafToPool(context.Background(), e, false)
	return e, f
}

// checkAck asserts that an acknowledged entry is in storage at its index with its timestamp.
func (w *vWorld) checkAcks(acks []verifAck, when string) {
	pub := w.published()
	for _, a := range acks {
		verifAssert(pub != nil && pub.n > a.leaf.LeafIndex, "an acknowledged entry is not covered by the published checkpoint "+when)
		leaves, ok := w.readLeaves(a.leaf.LeafIndex + 1)
		verifAssert(ok, "the data tile of an acknowledged entry is unreadable "+when)
		if !ok {
			continue
		}
		st := leaves[a.leaf.LeafIndex]
		// the Merkle-covered fields are those of the submission; the stored pre-certificate (not covered,
		// not part of the deduplication key) is that of the submission or of an equal submission
		// acknowledged with it (two pre-certificates over the same TBS are one leaf)
		pre := verifBytesEq(st.PreCertificate, a.sub.PreCertificate)
		for _, b := range acks {
			if b.sub != a.sub && b.sub.IsPrecert == a.sub.IsPrecert && b.sub.IssuerKeyHash == a.sub.IssuerKeyHash && verifBytesEq(b.sub.Certificate, a.sub.Certificate) {
				pre = verifOr(pre, verifBytesEq(st.PreCertificate, b.sub.PreCertificate))
			}
		}
		verifAssert(st.Timestamp == a.leaf.Timestamp && st.IsPrecert == a.sub.IsPrecert &&
			verifBytesEq(st.Certificate, a.sub.Certificate) && st.IssuerKeyHash == a.sub.IssuerKeyHash && pre,
			"the stored leaf at an acknowledged index is not the submitted entry "+when)
	}
}

// VerifC03: one round of `pool` submissions from a pre-state of n0 leaves with up to `crashes` crashes
// (at any operation of the round or of a recovery) and `faults` storage/lock failures; then recovery
// must succeed, storage must be complete for the committed tree, the log must keep sequencing and no
// acknowledged entry may be lost. shape selects the entry shape (see submitShape), unparseable=1
// makes certificates with an odd first byte fail X.509 parsing.
func VerifC03(n0, pool, faults, crashes, shape, unparseable int) {
	w := newWorld(faults, crashes)
	w.parseFailOdd = unparseable == 1
	w.clockMode = 1
	l, inst := w.bootstrap(n0)
	ctx := context.Background()
	w.armed = true
	var subs []*PendingLogEntry
	var waits []waitEntryFunc
	for i := 0; i < pool; i++ {
		e, f := submitShape(l, "e", shape)
		subs = append(subs, e)
		waits = append(waits, f)
	}
	err := l.sequence(ctx)
	var acks []verifAck
	if !inst.dead {
		// the round ended in this process: collect the acknowledgements
		for i, f := range waits {
			leaf, werr := f(ctx)
			if werr == nil {
				acks = append(acks, verifAck{subs[i], leaf})
			}
		}
		if len(acks) > 0 {
			verifReach("acknowledged")
			w.checkAcks(acks, "at acknowledgement time")
		}
	}
	if err != nil {
		verifAssert(errors.Is(err, errFatal), "sequence returns only fatal errors")
	}
	// crash right after the acknowledgement, then recover; crashes and faults may also hit the recovery
	var l2 *Log
	for attempt := 0; attempt < 6 && l2 == nil; attempt++ {
		inst2 := w.newInstance()
		verifTrace("RESTART")
		f0, c0 := w.faults, w.crashes
		ll, lerr := LoadLog(ctx, w.config(inst2))
		if lerr == nil && !inst2.dead {
			l2 = ll
			break
		}
		verifAssert(w.faults != f0 || w.crashes != c0, "recovery fails although nothing failed during it")
		if w.faults == f0 && w.crashes == c0 {
			return
		}
	}
	verifAssert(l2 != nil, "recovery does not succeed once faults and crashes stop")
	if l2 == nil {
		return
	}
	verifReach("recovered")
	w.armed = false
	// every tile of the tree committed in the lock store is now in object storage
	last := w.lockHist[len(w.lockHist)-1]
	w.checkBacked(&last)
	// the log keeps sequencing
	e := verifPending("after", 4, 0, false) // a length no earlier entry has: never a duplicate
	f, _ := l2.addLeafToPool(ctx, e, false)
	verifAssert(l2.sequence(ctx) == nil, "sequencing after recovery fails")
	leaf, werr := f(ctx)
	verifAssert(werr == nil, "a submission after recovery is not acknowledged")
	if werr == nil {
		acks = append(acks, verifAck{e, leaf})
		verifAssert(leaf.LeafIndex == last.n, "the first leaf after recovery extends the committed tree")
	}
	w.checkAcks(acks, "after recovery")
	w.auditPrefix()
	verifReach("resumed")
}

// VerifC04Rounds: several rounds in the SAME instance (no restart in between), each with a symbolic
// number of submissions (0..pool) of the given shape, from a pre-state of n0 leaves; the storage
// monitors (checkBacked at every publication, immutability, discards) stay on, so that in-memory
// right-edge state carried from one round to the next (e.g. across an exact tile boundary) is
// compared with the independent rendering of the leaf sequence at every publication.
func VerifC04Rounds(n0, rounds, pool, faults, shape int) {
	w := newWorld(faults, 0)
	w.clockMode = 1
	l, inst := w.bootstrap(n0)
	ctx := context.Background()
	w.armed = true
	count := 0
	for r := 0; r < rounds && l != nil && !inst.dead; r++ {
		k := verifConcretize(verifChoice("submissions", pool+1))
		for i := 0; i < k; i++ {
			// distinct lengths: no two submissions can be equal (deduplication is C07's subject);
			// the first entry of a round has the requested shape, the others are plain certificates
			count++
			if i == 0 && shape != 0 {
				e := verifPending("e", 3+count, map[int]int{1: 0, 2: 1, 3: 2}[shape], shape == 1)
				l.addLeafToPool(ctx, e, false)
			} else {
				l.addLeafToPool(ctx, verifPending("e", 3+count, 0, false), false)
			}
		}
		verifTraceInt("ROUND entries", int64(k))
		if err := l.sequence(ctx); err != nil {
			verifReach("fatal")
			verifAssert(errors.Is(err, errFatal), "sequence returns only fatal errors")
			l = nil
		}
	}
	w.armed = false
	if l == nil {
		l, _ = w.restart()
		if l == nil {
			verifFail("with no further faults the log reloads")
			return
		}
	}
	last := w.lockHist[len(w.lockHist)-1]
	if pub := w.published(); pub != nil && pub.n == last.n {
		w.checkBacked(&last)
	}
	w.auditPrefix()
	verifReach("done")
}
