//go:build verif

package ctlog

import (
	"bytes"
	"context"
	"errors"
	"io"
	"net/http"
	"net/http/httptest"
	"strings"
	"sync"

	"crawshaw.io/sqlite"
	"github.com/aws/aws-sdk-go-v2/aws"
	"github.com/aws/aws-sdk-go-v2/service/dynamodb"
	ddbtypes "github.com/aws/aws-sdk-go-v2/service/dynamodb/types"
	"github.com/aws/aws-sdk-go-v2/service/s3"
	s3types "github.com/aws/aws-sdk-go-v2/service/s3/types"
	"github.com/aws/smithy-go/middleware"
)

// ---------------------------------------------------------------------------
// C05 — lock backends are linearizable compare-and-swap registers
//
// Each backend method issues exactly one request to its service. The services are models
// (contracts) that interpret the request: the SQL subset used (SELECT/UPDATE…WHERE body=?/INSERT…ON
// CONFLICT DO NOTHING, changes()), DynamoDB GetItem/PutItem with the two condition expressions and
// ConsistentRead, S3 GetObject/PutObject with If-Match on ETags (empty value = must not exist).
// Each request is atomic at the service, so interleavings of clients are operation sequences.
// ---------------------------------------------------------------------------

type c05Row struct {
	key      []byte
	body     []byte
	isNil    bool // SQL NULL
	etag     int
	stale    []byte // previous value (visible to inconsistent reads)
	hadStale bool
}

var c05 struct {
	rows     []*c05Row
	changes  int
	curBody  []byte
	headers  map[string]string
	hasHdr   map[string]bool
	etagCtr  int
	requests int
}

func c05Reset() {
	c05.rows, c05.changes, c05.etagCtr, c05.requests = nil, 0, 0, 0
}

func c05Find(key []byte) *c05Row {
	for _, r := range c05.rows {
		if bytes.Equal(r.key, key) {
			return r
		}
	}
	return nil
}

// ---- SQLite ----

// c05Exec interprets the statements of sqlite.go (called from the world's sqlitex.Exec stub).
func c05Exec(query string, resultFn func(stmt *sqlite.Stmt) error, args []interface{}) (bool, error) {
	q := strings.Join(strings.Fields(query), " ")
	blob := func(i int) ([]byte, bool) {
		b, _ := args[i].([]byte)
		return b, b == nil
	}
	switch q {
	case "SELECT body FROM checkpoints WHERE logID = ?":
		c05.requests++
		k, _ := blob(0)
		if r := c05Find(k); r != nil {
			c05.curBody = r.body
			return true, resultFn(new(sqlite.Stmt))
		}
		return true, nil
	case "UPDATE checkpoints SET body = ? WHERE logID = ? AND body = ?":
		c05.requests++
		nb, nbNull := blob(0)
		k, _ := blob(1)
		ob, obNull := blob(2)
		c05.changes = 0
		if nbNull {
			return true, errors.New("NOT NULL constraint failed: checkpoints.body")
		}
		// comparison with NULL is never true
		if r := c05Find(k); r != nil && !obNull && verifBytesEq(r.body, ob) {
			r.body = append([]byte{}, nb...)
			c05.changes = 1
		}
		return true, nil
	case "INSERT INTO checkpoints (logID, body) VALUES (?, ?) ON CONFLICT(logID) DO NOTHING":
		c05.requests++
		k, _ := blob(0)
		nb, nbNull := blob(1)
		c05.changes = 0
		if nbNull {
			return true, errors.New("NOT NULL constraint failed: checkpoints.body")
		}
		if c05Find(k) == nil {
			c05.rows = append(c05.rows, &c05Row{key: append([]byte{}, k...), body: append([]byte{}, nb...)})
			c05.changes = 1
		}
		return true, nil
	}
	return false, nil
}

//verif:stub (*crawshaw.io/sqlite.Conn).Changes
func verifStubConnChanges(c *sqlite.Conn) int { return c05.changes }

//verif:stub (*crawshaw.io/sqlite.Stmt).GetText
func verifStubStmtGetText(s *sqlite.Stmt, col string) string { return string(c05.curBody) }

// ---- DynamoDB ----

//verif:stub (*github.com/aws/aws-sdk-go-v2/service/dynamodb.Client).GetItem
func verifStubDDBGetItem(c *dynamodb.Client, ctx context.Context, in *dynamodb.GetItemInput, optFns ...func(*dynamodb.Options)) (*dynamodb.GetItemOutput, error) {
	c05.requests++
	k := in.Key["logID"].(*ddbtypes.AttributeValueMemberB).Value
	r := c05Find(k)
	if r == nil {
		return &dynamodb.GetItemOutput{}, nil
	}
	body := r.body
	if (in.ConsistentRead == nil || !*in.ConsistentRead) && r.hadStale && verifNondetBool("stale-read") {
		body = r.stale // an eventually consistent read may return an older value
	}
	return &dynamodb.GetItemOutput{Item: map[string]ddbtypes.AttributeValue{
		"logID":      &ddbtypes.AttributeValueMemberB{Value: r.key},
		"checkpoint": &ddbtypes.AttributeValueMemberB{Value: append([]byte{}, body...)},
	}}, nil
}

//verif:stub (*github.com/aws/aws-sdk-go-v2/service/dynamodb.Client).PutItem
func verifStubDDBPutItem(c *dynamodb.Client, ctx context.Context, in *dynamodb.PutItemInput, optFns ...func(*dynamodb.Options)) (*dynamodb.PutItemOutput, error) {
	c05.requests++
	k := in.Item["logID"].(*ddbtypes.AttributeValueMemberB).Value
	nb := in.Item["checkpoint"].(*ddbtypes.AttributeValueMemberB).Value
	r := c05Find(k)
	cond := ""
	if in.ConditionExpression != nil {
		cond = *in.ConditionExpression
	}
	if cond == "" {
		verifFail("an unconditional DynamoDB write")
	}
	// the service evaluates the condition expression against the stored item (DynamoDB's documented
	// semantics for =, <>, attribute_exists, attribute_not_exists, AND, OR, NOT and parentheses)
	item := map[string][]byte{}
	if r != nil {
		item["logID"], item["checkpoint"] = r.key, r.body
	}
	vals := map[string][]byte{}
	for name, v := range in.ExpressionAttributeValues {
		if b, isB := v.(*ddbtypes.AttributeValueMemberB); isB {
			vals[name] = b.Value
		} else {
			verifUnsupported("non-binary expression attribute value " + name)
		}
	}
	ev := &ddbCond{toks: ddbTokens(cond), item: item, vals: vals, names: in.ExpressionAttributeNames}
	ok := ev.or()
	if ev.pos != len(ev.toks) {
		verifUnsupported("DynamoDB condition expression: " + cond)
	}
	if !ok {
		return nil, &ddbtypes.ConditionalCheckFailedException{}
	}
	if r == nil {
		c05.rows = append(c05.rows, &c05Row{key: append([]byte{}, k...), body: append([]byte{}, nb...)})
	} else {
		r.stale, r.hadStale = r.body, true
		r.body = append([]byte{}, nb...)
	}
	return &dynamodb.PutItemOutput{}, nil
}

// ddbCond evaluates a DynamoDB condition expression over binary attributes.
type ddbCond struct {
	toks  []string
	pos   int
	item  map[string][]byte
	vals  map[string][]byte
	names map[string]string
}

func ddbTokens(s string) []string {
	var out []string
	for i := 0; i < len(s); {
		c := s[i]
		switch {
		case c == ' ':
			i++
		case c == '(' || c == ')' || c == ',' || c == '=':
			out = append(out, string(c))
			i++
		case c == '<' && i+1 < len(s) && s[i+1] == '>':
			out = append(out, "<>")
			i += 2
		default:
			j := i
			for j < len(s) && s[j] != ' ' && s[j] != '(' && s[j] != ')' && s[j] != ',' && s[j] != '=' && s[j] != '<' {
				j++
			}
			if j == i {
				verifUnsupported("DynamoDB condition expression: " + s)
				return out
			}
			out = append(out, s[i:j])
			i = j
		}
	}
	return out
}

func (e *ddbCond) peek() string {
	if e.pos < len(e.toks) {
		return e.toks[e.pos]
	}
	return ""
}

func (e *ddbCond) or() bool {
	v := e.and()
	for strings.EqualFold(e.peek(), "OR") {
		e.pos++
		r := e.and()
		v = verifOr(v, r)
	}
	return v
}

func (e *ddbCond) and() bool {
	v := e.not()
	for strings.EqualFold(e.peek(), "AND") {
		e.pos++
		r := e.not()
		v = verifAnd(v, r)
	}
	return v
}

func (e *ddbCond) not() bool {
	if strings.EqualFold(e.peek(), "NOT") {
		e.pos++
		return !e.not()
	}
	return e.atom()
}

// operand resolves an attribute path or a value placeholder; present=false for a missing attribute.
func (e *ddbCond) operand(t string) (val []byte, present bool) {
	if strings.HasPrefix(t, ":") {
		v, ok := e.vals[t]
		if !ok {
			verifUnsupported("undefined expression attribute value " + t)
		}
		return v, true
	}
	if strings.HasPrefix(t, "#") {
		t = e.names[t]
	}
	v, ok := e.item[t]
	return v, ok
}

func (e *ddbCond) atom() bool {
	t := e.peek()
	switch {
	case t == "(":
		e.pos++
		v := e.or()
		if e.peek() != ")" {
			verifUnsupported("unbalanced DynamoDB condition expression")
		}
		e.pos++
		return v
	case t == "attribute_not_exists" || t == "attribute_exists":
		if e.pos+3 >= len(e.toks) || e.toks[e.pos+1] != "(" || e.toks[e.pos+3] != ")" {
			verifUnsupported("malformed " + t)
			return false
		}
		_, present := e.operand(e.toks[e.pos+2])
		e.pos += 4
		return present == (t == "attribute_exists")
	case e.pos+2 < len(e.toks) && (e.toks[e.pos+1] == "=" || e.toks[e.pos+1] == "<>"):
		a, pa := e.operand(t)
		b, pb := e.operand(e.toks[e.pos+2])
		neq := e.toks[e.pos+1] == "<>"
		e.pos += 3
		if !pa || !pb {
			return false // a comparison with a missing attribute is false
		}
		eq := len(a) == len(b) && verifBytesEq(a, b)
		if neq {
			return !eq
		}
		return eq
	}
	verifUnsupported("DynamoDB condition expression term " + t)
	e.pos = len(e.toks) + 1
	return false
}

// ---- S3 with ETags ----

//verif:stub github.com/aws/smithy-go/transport/http.AddHeaderValue
func verifStubAddHeaderValue(header string, value string) func(stack *middleware.Stack) error {
	c05.headers[header] = value
	c05.hasHdr[header] = true
	return func(stack *middleware.Stack) error { return nil }
}

func c05RunOptions(optFns []func(*s3.Options)) {
	c05.headers, c05.hasHdr = map[string]string{}, map[string]bool{}
	var o s3.Options
	for _, f := range optFns {
		f(&o)
	}
}

func c05ETag(n int) string { return "\"etag-" + string(rune('a'+n)) + "\"" }

//verif:stub (*github.com/aws/aws-sdk-go-v2/service/s3.Client).GetObject
func verifStubS3GetObject(c *s3.Client, ctx context.Context, in *s3.GetObjectInput, optFns ...func(*s3.Options)) (*s3.GetObjectOutput, error) {
	c05.requests++
	c05RunOptions(optFns)
	r := c05Find([]byte(*in.Key))
	if r == nil {
		return nil, &s3types.NoSuchKey{}
	}
	return &s3.GetObjectOutput{Body: io.NopCloser(bytes.NewReader(append([]byte{}, r.body...))), ETag: aws.String(c05ETag(r.etag))}, nil
}

//verif:stub (*github.com/aws/aws-sdk-go-v2/service/s3.Client).PutObject
func verifStubS3PutObject(c *s3.Client, ctx context.Context, in *s3.PutObjectInput, optFns ...func(*s3.Options)) (*s3.PutObjectOutput, error) {
	c05.requests++
	c05RunOptions(optFns)
	body, err := io.ReadAll(in.Body)
	if err != nil {
		return nil, err
	}
	if in.ContentLength == nil || *in.ContentLength != int64(len(body)) {
		return nil, errors.New("content length mismatch")
	}
	r := c05Find([]byte(*in.Key))
	match, conditional := c05.headers["If-Match"], c05.hasHdr["If-Match"]
	if !conditional {
		verifFail("an unconditional S3 write to the lock object")
	}
	if match == "" {
		if r != nil {
			return nil, errors.New("PreconditionFailed: object exists")
		}
	} else if r == nil || c05ETag(r.etag) != match {
		return nil, errors.New("PreconditionFailed: ETag mismatch")
	}
	c05.etagCtr++
	if r == nil {
		r = &c05Row{key: []byte(*in.Key)}
		c05.rows = append(c05.rows, r)
	}
	r.body, r.etag = body, c05.etagCtr
	return &s3.PutObjectOutput{ETag: aws.String(c05ETag(r.etag))}, nil
}

// ---- differential harness ----

func c05Backend(kind int) LockBackend {
	switch kind {
	case 0:
		return &SQLiteBackend{mu: &sync.Mutex{}, conn: new(sqlite.Conn)}
	case 1:
		return &DynamoDBBackend{client: &dynamodb.Client{}, table: "t"}
	default:
		return &ETagBackend{client: &s3.Client{}, bucket: "b"}
	}
}

type c05Ref struct {
	exists bool
	val    []byte
}

func c05Value(tag string) []byte {
	switch verifChoice(tag+"-len", 3) {
	case 0:
		return []byte{}
	case 1:
		return verifNondetBytes(tag, 1)
	default:
		return verifNondetBytes(tag, 2)
	}
}

// VerifC05Register: `ops` operations by two clients (each remembering what it last fetched) on two
// log IDs against backend `kind`, compared step by step with a reference compare-and-swap register.
func VerifC05Register(kind, ops int) {
	vw = &vWorld{}
	c05Reset()
	b := c05Backend(kind)
	ctx := context.Background()
	var ids [2][32]byte
	ids[0][0], ids[1][0] = 1, 2
	var ref [2]c05Ref
	var held [2][2]LockedCheckpoint // per client, per id: what it last fetched or wrote
	for i := 0; i < ops; i++ {
		client := verifChoice("client", 2)
		id := verifChoice("log", 2)
		before := c05.requests
		op := verifChoice("op", 3)
		if i == 0 {
			// histories start with the creation of log 0 (everything before it only fails)
			id, op = 0, 1
		}
		switch op {
		case 0: // Fetch
			lc, err := b.Fetch(ctx, ids[id])
			if !ref[id].exists {
				verifReach("fetch-missing")
				verifAssert(err != nil && lc == nil, "fetching a missing log succeeds")
				verifAssert(errors.Is(err, ErrLogNotFound), "a missing log is not reported with ErrLogNotFound")
			} else {
				verifReach("fetch")
				verifAssert(err == nil, "fetching an existing log fails")
				if err == nil {
					verifAssert(verifBytesEq(lc.Bytes(), ref[id].val), "a fetch does not return the latest value")
					// both clients fetch at this point (two concurrent readers of the same value)
					held[0][id], held[1][id] = lc, lc
				}
			}
		case 1: // Create
			v := c05Value("create")
			err := b.Create(ctx, ids[id], v)
			if ref[id].exists {
				verifReach("create-exists")
				verifAssert(err != nil, "create overwrote an existing value")
			} else {
				verifReach("create")
				verifAssert(err == nil, "creating a missing log fails")
				ref[id] = c05Ref{true, v}
			}
		default: // Replace using what this client holds
			old := held[client][id]
			if old == nil {
				verifAssume(false)
			}
			v := c05Value("replace")
			current := ref[id].exists && verifBytesEq(old.Bytes(), ref[id].val) && c05StillCurrent(kind, old, id)
			nl, err := b.Replace(ctx, old, v)
			if current {
				verifReach("replace")
				verifAssert(err == nil && nl != nil, "a replace of the current value fails")
				if err == nil {
					verifAssert(verifBytesEq(nl.Bytes(), v), "the new locked checkpoint does not carry the new value")
					ref[id].val = v
					held[client][id] = nl
				}
			} else {
				verifReach("replace-stale")
				verifAssert(err != nil && nl == nil, "a replace with a stale predecessor succeeded")
			}
		}
		verifAssert(c05.requests == before+1, "a lock backend method is not exactly one request")
	}
}

// c05StillCurrent: for the ETag backend the predecessor is identified by version, not by bytes:
// equal bytes written twice are different versions (a replace holding the older version must fail,
// which is also what a CAS on versions means).
func c05StillCurrent(kind int, old LockedCheckpoint, id int) bool {
	if kind != 2 {
		return true
	}
	e := old.(*eTagCheckpoint)
	r := c05Find([]byte(e.key))
	return r != nil && c05ETag(r.etag) == e.eTag
}

// VerifC05NativeETagMissing (native confirmation): the ETag backend against a local HTTP server that
// answers 404 NoSuchKey, as S3-compatible stores do for a missing object.
func VerifC05NativeETagMissing() {
	srv := httptest.NewServer(http.HandlerFunc(func(rw http.ResponseWriter, r *http.Request) {
		rw.Header().Set("Content-Type", "application/xml")
		rw.WriteHeader(http.StatusNotFound)
		io.WriteString(rw, `<?xml version="1.0" encoding="UTF-8"?><Error><Code>NoSuchKey</Code><Message>The specified key does not exist.</Message></Error>`)
	}))
	defer srv.Close()
	client := s3.New(s3.Options{Region: "us-east-1", BaseEndpoint: aws.String(srv.URL), UsePathStyle: true,
		Credentials: aws.AnonymousCredentials{}})
	b := &ETagBackend{client: client, bucket: "bucket"}
	_, err := b.Fetch(context.Background(), [32]byte{1})
	if err == nil {
		verifFail("fetching a missing object succeeded")
	}
	if !errors.Is(err, ErrLogNotFound) {
		verifFail("a missing log is not reported with ErrLogNotFound")
	}
}
