//go:build verif

package ctlog

import (
	"bytes"
	"context"
	"crypto/ecdsa"
	"crypto/sha256"
	"encoding/base64"
	"errors"
	"io"
	"net/http"
	"time"

	"filippo.io/sunlight"
	ct "github.com/google/certificate-transparency-go"
	"github.com/google/certificate-transparency-go/trillian/ctfe"
	ctx509 "github.com/google/certificate-transparency-go/x509"
	"github.com/google/certificate-transparency-go/x509/pkix"
	"github.com/google/certificate-transparency-go/x509util"
)

// ---------------------------------------------------------------------------
// C09 — submissions are validated and turned into the RFC 6962 leaf correctly
// (also: the SCT bytes of C02 and the HTTP status mapping of C17)
//
// Contracts: ctfe.ValidateChain returns an error or an abstract chain (X.509 path validation is not
// encoded); its options are checked for the trust configuration; IsPrecertificate / BuildPrecertTBS
// are functions of the abstract certificate.
// ---------------------------------------------------------------------------

var c09 struct {
	chain      []*ctx509.Certificate
	validErr   bool
	precert    map[*ctx509.Certificate]bool
	precertErr bool
	optRoots   *x509util.PEMCertPool
	optStart   *time.Time
	optLimit   *time.Time
	optEKU     []ctx509.ExtKeyUsage
	optOther   bool
	validCalls int
	rawChain   [][]byte
	rsp        *ct.AddChainResponse
	reqChain   [][]byte
}

//verif:stub github.com/google/certificate-transparency-go/trillian/ctfe.NewCertValidationOpts
func verifStubNewCertValidationOpts(roots *x509util.PEMCertPool, now time.Time, rejectExpired, rejectUnexpired bool, start, limit *time.Time, onlyCA bool, ekus []ctx509.ExtKeyUsage) ctfe.CertValidationOpts {
	c09.optRoots, c09.optStart, c09.optLimit, c09.optEKU = roots, start, limit, ekus
	c09.optOther = !now.IsZero() || rejectExpired || rejectUnexpired || onlyCA
	return ctfe.CertValidationOpts{}
}

//verif:stub github.com/google/certificate-transparency-go/trillian/ctfe.ValidateChain
func verifStubValidateChain(raw [][]byte, opts ctfe.CertValidationOpts) ([]*ctx509.Certificate, error) {
	c09.validCalls++
	c09.rawChain = raw
	if c09.validErr {
		return nil, errors.New("chain does not verify")
	}
	return c09.chain, nil
}

//verif:stub github.com/google/certificate-transparency-go/trillian/ctfe.IsPrecertificate
func verifStubIsPrecertificate(c *ctx509.Certificate) (bool, error) {
	if c09.precertErr {
		return false, errors.New("malformed CT poison extension")
	}
	return c09.precert[c], nil
}

//verif:stub github.com/google/certificate-transparency-go/x509.BuildPrecertTBS
func verifStubBuildPrecertTBS(tbs []byte, preIssuer *ctx509.Certificate) ([]byte, error) {
	return refDefangedTBS(tbs, preIssuer), nil
}

func refDefangedTBS(tbs []byte, preIssuer *ctx509.Certificate) []byte {
	out := append([]byte("TBS:"), tbs...)
	if preIssuer != nil {
		out = append(append(out, '|'), preIssuer.Raw...)
	}
	return out
}

//verif:stub github.com/google/certificate-transparency-go/x509util.NameToString
func verifStubNameToString(n pkix.Name) string { return "" }

func c09Cert(tag string) *ctx509.Certificate { return c09CertLen(tag, 2) }

func c09CertLen(tag string, n int) *ctx509.Certificate {
	return &ctx509.Certificate{Raw: verifNondetBytes(tag+"-raw", n), RawTBSCertificate: verifNondetBytes(tag+"-tbs", 2),
		RawSubjectPublicKeyInfo: verifNondetBytes(tag+"-spki", 1)}
}

// verifStubJSON for the HTTP layer: request decoding and response encoding.
func c09JSONUnmarshal(data []byte, v any) (bool, error) {
	if req, ok := v.(*struct{ Chain [][]byte }); ok {
		if len(data) == 0 {
			return true, errors.New("malformed body")
		}
		req.Chain = c09.reqChain
		return true, nil
	}
	return false, nil
}

func c09JSONMarshal(v any) ([]byte, bool) {
	if r, ok := v.(*ct.AddChainResponse); ok {
		c09.rsp = r
		return []byte("RSP"), true
	}
	return nil, false
}

// VerifC09Submit: one submission through the HTTP-level entry point with an abstract chain.
// kind: 0 certificate, 1 precertificate, 2 precertificate signed by a precertificate signing certificate;
// chainLen: total chain length; endpoint: 0 add-chain, 1 add-pre-chain.
func VerifC09Submit(kind, chainLen, endpoint int) {
	w := newWorld(0, 0)
	w.clockMode = 1
	l, _ := w.bootstrap(0)
	ctx := context.Background()
	c09.precert = map[*ctx509.Certificate]bool{}
	c09.chain = nil
	for i := 0; i < chainLen; i++ {
		c09.chain = append(c09.chain, c09Cert("c"))
	}
	if kind >= 1 {
		c09.precert[c09.chain[0]] = true
	}
	if kind == 2 && chainLen >= 2 {
		c09.chain[1].ExtKeyUsage = []ctx509.ExtKeyUsage{ctx509.ExtKeyUsageCertificateTransparency}
	}
	c09.validErr = verifNondetBool("chain-invalid")
	c09.precertErr = verifNondetBool("poison-malformed")
	c09.reqChain = [][]byte{{1}}
	c09.validCalls = 0
	c09.rsp = nil
	verifSince = 0 // NotBefore is recent: high priority
	start, limit := time.Unix(1000, 0), time.Unix(2000, 0)
	l.c.NotAfterStart, l.c.NotAfterLimit = start, limit
	checkType := func(le *PendingLogEntry) error {
		if le.IsPrecert != (endpoint == 1) {
			return fmtErrorf("wrong endpoint for entry type")
		}
		return nil
	}
	go l.sequence(ctx)
	rsp, code, err := l.addChainOrPreChain(ctx, io.NopCloser(bytes.NewReader([]byte("{}"))), checkType)
	leavesAfter := w.published().n
	// the validator was invoked with the log's trust configuration
	verifAssert(c09.validCalls == 1, "the chain validator is invoked exactly once")
	verifAssert(c09.optRoots == l.rootPool(), "the validator is not given the currently accepted roots")
	verifAssert(c09.optStart == &l.c.NotAfterStart && c09.optLimit == &l.c.NotAfterLimit, "the validator is not given the shard's NotAfter window")
	verifAssert(len(c09.optEKU) == 1 && c09.optEKU[0] == ctx509.ExtKeyUsageServerAuth && !c09.optOther, "the validator is not restricted to TLS server authentication")
	verifAssert(len(c09.rawChain) == 1 && verifBytesEq(c09.rawChain[0], c09.reqChain[0]), "the submitted chain is not what is validated")
	wantReject := c09.validErr || c09.precertErr
	isPre := kind >= 1
	if !wantReject {
		if isPre && chainLen < 2 {
			wantReject = true
		}
		if kind == 2 && chainLen < 3 {
			wantReject = true
		}
		if isPre != (endpoint == 1) {
			wantReject = true
		}
	}
	if wantReject {
		verifReach("rejected")
		verifAssert(err != nil && code == http.StatusBadRequest && rsp == nil, "an invalid submission is not answered with a client error")
		verifAssert(leavesAfter == 0, "a rejected submission left a leaf")
		return
	}
	verifReach("accepted")
	verifAssert(err == nil && code == http.StatusOK, "a valid submission is not accepted")
	if err != nil {
		return
	}
	// independent derivation of the logged entry
	want := &sunlight.LogEntry{LeafIndex: 0}
	var preIssuer *ctx509.Certificate
	if !isPre {
		want.Certificate = c09.chain[0].Raw
	} else {
		want.IsPrecert = true
		want.PreCertificate = c09.chain[0].Raw
		keyCert := c09.chain[1]
		if kind == 2 {
			preIssuer = c09.chain[1]
			keyCert = c09.chain[2]
		}
		want.Certificate = refDefangedTBS(c09.chain[0].RawTBSCertificate, preIssuer)
		want.IssuerKeyHash = sha256.Sum256(keyCert.RawSubjectPublicKeyInfo)
	}
	leaves, ok := w.readLeaves(1)
	verifAssert(ok && leavesAfter == 1, "exactly one leaf is logged for an accepted submission")
	if !ok {
		return
	}
	got := leaves[0]
	verifAssert(got.IsPrecert == want.IsPrecert && verifBytesEq(got.Certificate, want.Certificate) && got.IssuerKeyHash == want.IssuerKeyHash &&
		verifBytesEq(got.PreCertificate, want.PreCertificate), "the logged entry differs from the independent RFC 6962 derivation")
	verifAssert(len(got.ChainFingerprints) == chainLen-1, "not every chain certificate is recorded as an issuer")
	for i, fp := range got.ChainFingerprints {
		verifAssert(fp == sha256.Sum256(c09.chain[i+1].Raw), "a chain fingerprint is not the hash of the chain certificate")
		o, ok := w.objects["issuer/"+hexString(fp[:])]
		verifAssert(ok && verifBytesEq(o.data, c09.chain[i+1].Raw), "a chain certificate is not retrievable as an issuer")
	}
	// the SCT
	r := c09.rsp
	verifAssert(r != nil && r.SCTVersion == ct.V1 && verifBytesEq(r.ID, l.logID[:]) && int64(r.Timestamp) == got.Timestamp, "SCT version, log ID or timestamp are wrong")
	if r == nil {
		return
	}
	ext, derr := base64.StdEncoding.DecodeString(r.Extensions)
	verifAssert(derr == nil && len(ext) == 8 && ext[0] == 0 && ext[1] == 0 && ext[2] == 5 && ext[3]|ext[4]|ext[5]|ext[6]|ext[7] == 0, "the SCT extension does not carry leaf index 0")
	sig := r.Signature
	verifAssert(len(sig) > 4 && sig[0] == 4 && sig[1] == 3 && int(sig[2])<<8|int(sig[3]) == len(sig)-4, "the SCT signature is not a sha256/ecdsa digitally-signed struct")
	want.Timestamp = got.Timestamp
	digest := sha256.Sum256(refMerkleTreeLeaf(want))
	verifAssert(len(sig) > 4 && ecdsa.VerifyASN1(&l.c.Key.PublicKey, digest[:], sig[4:]), "the SCT does not verify under the log key over the independently derived leaf")
}

// VerifC09Status: the retry-later / gone / internal-error answers.
// mode 0: rejected from a full pool (503); 1: evicted by a higher-priority submission (503);
// 2: the sequencer stopped at the read-only date (410); 3: the round failed (500).
func VerifC09Status(mode int) {
	w := newWorld(0, 0)
	w.clockMode = 1
	w.poolSize = 1
	l, _ := w.bootstrap(0)
	ctx := context.Background()
	c09.precert = map[*ctx509.Certificate]bool{}
	c09.validErr, c09.precertErr = false, false
	c09.reqChain = [][]byte{{1}}
	verifSince = 0
	accept := func(*PendingLogEntry) error { return nil }
	body := func() io.ReadCloser { return io.NopCloser(bytes.NewReader([]byte("{}"))) }
	low := c09Cert("low")
	low.SCTList.SCTList = []ctx509.SerializedSCT{{Val: []byte{1}}}
	high := c09CertLen("high", 3)
	var code1 int
	var err1 error
	done1 := false
	switch mode {
	case 0, 1:
		// the first submission (low priority for mode 1, high for mode 0) stays pending
		first := low
		if mode == 0 {
			first = c09CertLen("first", 4)
		}
		c09.chain = []*ctx509.Certificate{first}
		go func() {
			_, code1, err1 = l.addChainOrPreChain(ctx, body(), accept)
			done1 = true
		}()
		verifYield()
		verifAssert(!done1, "a pending submission was answered before sequencing")
		c09.chain = []*ctx509.Certificate{high}
		if mode == 0 {
			c09.chain = []*ctx509.Certificate{low}
		}
		go l.sequence(ctx)
		_, code2, err2 := l.addChainOrPreChain(ctx, body(), accept)
		verifYield()
		verifAssert(done1, "the first submitter is stranded")
		if mode == 0 {
			verifAssert(err2 == errPoolFull && code2 == http.StatusServiceUnavailable, "a submission into a full pool is not answered 503")
			verifAssert(err1 == nil && code1 == http.StatusOK, "the pending submission is not sequenced")
		} else {
			verifAssert(err1 == errEvicted && code1 == http.StatusServiceUnavailable, "an evicted submission is not answered 503 (retry later)")
			verifAssert(err2 == nil && code2 == http.StatusOK, "the evicting submission is not sequenced")
		}
	case 2:
		l.poolMu.Lock()
		l.currentPool.err = SunsetLogError{}
		close(l.currentPool.done)
		l.poolMu.Unlock()
		c09.chain = []*ctx509.Certificate{high}
		_, code, err := l.addChainOrPreChain(ctx, body(), accept)
		verifAssert(err != nil && code == http.StatusGone, "a submission to a read-only log is not answered 410")
	default:
		w.armed, w.faults, w.faultOnly = true, 1, "lock-replace"
		c09.chain = []*ctx509.Certificate{high}
		go l.sequence(ctx)
		_, code, err := l.addChainOrPreChain(ctx, body(), accept)
		verifAssume(w.faults == 0)
		verifAssert(err != nil && code == http.StatusInternalServerError, "a failed round is not answered 500")
	}
	verifReach("answered")
}

// VerifC09Roots: get-roots reports exactly the accepted roots, and the endpoint type checks of the
// two handlers' closures (executed through addChain/addPreChain's own checkType logic).
func VerifC09Roots() {
	w := newWorld(1, 0)
	w.clockMode = 1
	l, _ := w.bootstrap(0)
	ctx := context.Background()
	pem := verifNondetBytes("pem", 3)
	before := l.rootPool()
	beforePEM := append([]byte{}, l.RootsPEM()...)
	// first attempt: the upload of _roots.pem may fail (applied or not)
	w.armed = true
	err := l.SetRootsFromPEM(ctx, pem)
	w.armed = false
	if err != nil {
		verifReach("failed")
		verifAssert(w.faults == 0, "installing roots fails although storage did not")
		// a failed reload changes nothing in memory: the old roots stay in force and are still reported
		verifAssert(l.rootPool() == before, "a failed reload swapped the root pool")
		verifAssert(verifBytesEq(l.RootsPEM(), beforePEM), "a failed reload changed the reported roots")
		// the periodic reload retries with the same bytes: now storage works and the roots must be installed
		err = l.SetRootsFromPEM(ctx, pem)
		verifAssert(err == nil, "retrying the reload fails although storage works")
	}
	if err != nil {
		return
	}
	verifAssert(l.rootPool() != before || verifBytesEq(pem, beforePEM), "a reload that reports success did not swap the root pool")
	verifAssert(verifBytesEq(l.RootsPEM(), pem), "the installed PEM is not what is reported")
	o, ok := w.objects["_roots.pem"]
	verifAssert(ok && verifBytesEq(o.data, pem), "the accepted roots are not persisted")
	verifReach("installed")
}
