//go:build verif

package main

import (
	"context"
	"crypto/ecdsa"
	"crypto/sha256"
	"errors"
	"io"
	"io/fs"
	"os"
	"sort"
	"strings"
	"time"

	"filippo.io/sunlight"
	"filippo.io/sunlight/internal/witness"
	"filippo.io/torchwood"
	ct "github.com/google/certificate-transparency-go"
	"golang.org/x/mod/sumdb/note"
	"golang.org/x/mod/sumdb/tlog"
)

// ---------------------------------------------------------------------------
// C20 — the health endpoint is green only for fresh, valid, consistent state
// Model directory trees (in-memory fs.FS behind os.Root.FS), metadata JSON as contracts, symbolic
// clock differences; the real note/torchwood/tlog code verifies signatures (ideal) and tiles.
// ---------------------------------------------------------------------------

type memFS struct{ files map[string][]byte }

type memFile struct {
	name string
	data []byte
	pos  int
	dir  bool
	fsys *memFS
}

type memInfo struct {
	name string
	size int64
	dir  bool
}

func (i memInfo) Name() string { return i.name }
func (i memInfo) Size() int64  { return i.size }
func (i memInfo) Mode() fs.FileMode {
	if i.dir {
		return fs.ModeDir | 0o755
	}
	return 0o644
}
func (i memInfo) ModTime() time.Time         { return time.Time{} }
func (i memInfo) IsDir() bool                { return i.dir }
func (i memInfo) Sys() any                   { return nil }
func (i memInfo) Type() fs.FileMode          { return i.Mode().Type() }
func (i memInfo) Info() (fs.FileInfo, error) { return i, nil }

func (m *memFS) isDir(name string) bool {
	if name == "." {
		return true
	}
	for k := range m.files {
		if strings.HasPrefix(k, name+"/") {
			return true
		}
	}
	return false
}

func (m *memFS) Open(name string) (fs.File, error) {
	if !fs.ValidPath(name) {
		return nil, &fs.PathError{Op: "open", Path: name, Err: fs.ErrInvalid}
	}
	if d, ok := m.files[name]; ok {
		return &memFile{name: name, data: d, fsys: m}, nil
	}
	if m.isDir(name) {
		return &memFile{name: name, dir: true, fsys: m}, nil
	}
	return nil, &fs.PathError{Op: "open", Path: name, Err: fs.ErrNotExist}
}

func (f *memFile) Stat() (fs.FileInfo, error) { return memInfo{f.name, int64(len(f.data)), f.dir}, nil }
func (f *memFile) Close() error               { return nil }
func (f *memFile) Read(p []byte) (int, error) {
	if f.dir {
		return 0, errors.New("is a directory")
	}
	if f.pos >= len(f.data) {
		return 0, io.EOF
	}
	n := copy(p, f.data[f.pos:])
	f.pos += n
	return n, nil
}
func (f *memFile) ReadDir(n int) ([]fs.DirEntry, error) {
	seen := map[string]bool{}
	var names []string
	prefix := f.name + "/"
	if f.name == "." {
		prefix = ""
	}
	for k := range f.fsys.files {
		if !strings.HasPrefix(k, prefix) {
			continue
		}
		first := strings.Split(k[len(prefix):], "/")[0]
		if !seen[first] {
			seen[first] = true
			names = append(names, first)
		}
	}
	sort.Strings(names)
	var out []fs.DirEntry
	for _, c := range names {
		full := prefix + c
		_, isFile := f.fsys.files[full]
		out = append(out, memInfo{c, 0, !isFile})
	}
	return out, nil
}

var c20 struct {
	roots    map[*os.Root]*memFS
	logInfo  logInfo
	vkeys    map[*memFS][]string
	verifier map[string]note.Verifier
	limit    time.Time
	since    []time.Duration
	sinceN   int
	infos    map[string]logInfo
	limits   []time.Time
	sinceBy  map[int64]time.Duration
	keys     map[string]*ecdsa.PrivateKey
}

//verif:stub (*os.Root).FS
func verifStubRootFS(r *os.Root) fs.FS { return c20.roots[r] }

//verif:stub encoding/json.Unmarshal
func verifStubJSONUnmarshal(data []byte, v any) error {
	switch x := v.(type) {
	case *logInfo:
		if len(data) == 0 {
			return errors.New("malformed JSON")
		}
		if li, ok := c20.infos[string(data)]; ok {
			*x = li
			return nil
		}
		*x = c20.logInfo
		return nil
	case *struct {
		VerifierKeys []string `json:"verifier_keys"`
	}:
		x.VerifierKeys = strings.Fields(string(data))
		return nil
	}
	return errors.New("json model: unsupported type")
}

//verif:stub crypto/x509.ParsePKIXPublicKey
func verifStubParsePKIX(der []byte) (any, error) {
	k, ok := c20.keys[string(der)]
	if !ok {
		return nil, errors.New("x509: malformed public key")
	}
	return k.Public(), nil
}

//verif:stub time.Parse
func verifStubTimeParse(layout, value string) (time.Time, error) {
	if value == "" {
		return time.Time{}, errors.New("parsing time: empty")
	}
	if value == "alpha" && len(c20.limits) > 0 {
		return c20.limits[0], nil
	}
	if value == "beta" && len(c20.limits) > 1 {
		return c20.limits[1], nil
	}
	return c20.limit, nil
}

//verif:stub time.Since
func verifStubSince(t time.Time) time.Duration {
	if d, ok := c20.sinceBy[t.UnixMilli()]; ok {
		return d
	}
	d := c20.since[c20.sinceN%len(c20.since)]
	c20.sinceN++
	return d
}

//verif:stub golang.org/x/mod/sumdb/note.NewVerifier
func verifStubNewVerifier(vkey string) (note.Verifier, error) {
	return nil, errors.New("not an Ed25519 vkey in this model")
}

//verif:stub filippo.io/torchwood.NewCosignatureVerifier
func verifStubNewCosignatureVerifier(vkey string) (*torchwood.CosignatureVerifier, error) {
	v, ok := c20.verifier[vkey]
	if !ok {
		return nil, errors.New("malformed vkey")
	}
	return v.(*torchwood.CosignatureVerifier), nil
}

//verif:stub github.com/google/certificate-transparency-go.SerializeSTHSignatureInput
func verifStubSerializeSTH(sth ct.SignedTreeHead) ([]byte, error) {
	b := []byte{0, 1}
	for s := 56; s >= 0; s -= 8 {
		b = append(b, byte(sth.Timestamp>>uint(s)))
	}
	for s := 56; s >= 0; s -= 8 {
		b = append(b, byte(sth.TreeSize>>uint(s)))
	}
	return append(b, sth.SHA256RootHash[:]...), nil
}

// c20SignLog builds a checkpoint signed like a log does (RFC 6962 signature injected in a note).
func c20SignLog(name string, key *ecdsa.PrivateKey, n int64, root tlog.Hash, ts int64) []byte {
	sth, _ := verifStubSerializeSTH(ct.SignedTreeHead{Version: ct.V1, TreeSize: uint64(n), Timestamp: uint64(ts), SHA256RootHash: ct.SHA256Hash(root)})
	digest := sha256.Sum256(sth)
	body, err := ecdsa.SignASN1(nil, key, digest[:])
	if err != nil {
		panic(err)
	}
	blob := append([]byte{4, 3, byte(len(body) >> 8), byte(len(body))}, body...)
	signer, err := sunlight.NewRFC6962InjectedSigner(name, key.Public(), blob, ts)
	if err != nil {
		panic("injected signer: " + err.Error())
	}
	signed, err := note.Sign(&note.Note{Text: torchwood.Checkpoint{Origin: name, Tree: tlog.Tree{N: n, Hash: root}}.String()}, signer)
	if err != nil {
		panic("note.Sign: " + err.Error())
	}
	return signed
}

// VerifC20Log: checkLog over every combination of (signing key right/wrong, origin right/wrong,
// symbolic time since the NotAfter limit, symbolic checkpoint age, final tree present/absent and
// matching/mismatching in hash, size, timestamp).
func VerifC20Log() {
	c20.roots = map[*os.Root]*memFS{}
	c20.keys = map[string]*ecdsa.PrivateKey{}
	good, other := verifNewECDSAKey(), verifNewECDSAKey()
	c20.keys["der-good"] = good
	name := "log.example/2026h1"
	var root tlog.Hash
	root[0] = 7
	ts := int64(1_700_000_000_000)
	signKey := good
	if verifNondetBool("signed-by-other-key") {
		signKey = other
	}
	origin := name
	if verifNondetBool("foreign-origin") {
		origin = "other.example/log"
	}
	fsys := &memFS{files: map[string][]byte{}}
	fsys.files["log.v3.json"] = []byte("{json}")
	fsys.files["checkpoint"] = c20SignLog(origin, signKey, 42, root, ts)
	c20.logInfo = logInfo{Name: name, PublicKeyDER: []byte("der-good")}
	c20.logInfo.Interval.NotAfterLimit = "2026-07-01T00:00:00Z"
	finalKind := verifConcretize(verifChoice("final-tree", 5)) // 0 absent, 1 matching, 2 wrong hash, 3 wrong size, 4 wrong timestamp
	if finalKind > 0 {
		c20.logInfo.FinalTree.RootHash = append([]byte{}, root[:]...)
		c20.logInfo.FinalTree.Size = 42
		c20.logInfo.FinalTree.Timestamp = ts
		switch finalKind {
		case 2:
			c20.logInfo.FinalTree.RootHash[3] ^= 1
		case 3:
			c20.logInfo.FinalTree.Size = verifNondetInt64("final-size")
			verifAssume(c20.logInfo.FinalTree.Size != 42)
		case 4:
			c20.logInfo.FinalTree.Timestamp = verifNondetInt64("final-timestamp")
			verifAssume(c20.logInfo.FinalTree.Timestamp != ts)
		}
	}
	sinceLimit := time.Duration(verifNondetInt64("since-limit"))
	age := time.Duration(verifNondetInt64("checkpoint-age"))
	c20.since = []time.Duration{sinceLimit, age}
	c20.sinceN = 0
	r := new(os.Root)
	c20.roots[r] = fsys
	err := checkLog(r)
	valid := signKey == good && origin == name
	pastLimit := sinceLimit > 7*24*time.Hour+3*time.Second
	switch {
	case err == nil:
		verifReach("healthy")
		verifAssert(valid, "healthy although the checkpoint does not verify under the metadata's key and name")
		verifAssert(!pastLimit, "healthy although the log is past its read-only date")
		verifAssert(age <= 5*time.Second, "healthy although the checkpoint is stale")
	case err == errLogSunset:
		verifReach("sunset")
		verifAssert(valid, "sunset although the checkpoint does not verify under the metadata's key and name")
		verifAssert(pastLimit && finalKind == 1, "sunset although the final tree is absent or does not match the checkpoint")
	default:
		verifReach("unhealthy")
		verifAssert(!valid || (pastLimit && finalKind != 1) || (!pastLimit && age > 5*time.Second), "unhealthy although every condition holds")
	}
}

type c20Hashes []tlog.Hash

func (r c20Hashes) ReadHashes(idx []int64) ([]tlog.Hash, error) {
	out := make([]tlog.Hash, len(idx))
	for i, x := range idx {
		out[i] = r[x]
	}
	return out, nil
}

// VerifC20Witness: witnessHealth.check for a plain witness directory (mirror = 0) or a mirror
// (mirror = 1) of `size` entries, with one condition broken at a time (broken: 0 none, 1 checkpoint
// signed by an unpublished key, 2 directory name is not the origin's hash, 3 a right-edge tile has an
// arbitrary byte changed, 4 a right-edge tile is missing, 5 the mirror is ahead of the pending
// checkpoint, 6 the pending checkpoint is not signed by the witness keys, 7 pending origin differs).
func VerifC20Witness(mirror, size, broken int) {
	c20.roots = map[*os.Root]*memFS{}
	c20.verifier = map[string]note.Verifier{}
	witKey, mirKey, rogue := verifNewMLDSAKey(), verifNewMLDSAKey(), verifNewMLDSAKey()
	ws, _ := torchwood.NewCosignatureSigner("witness.example/w", witKey)
	ms, _ := torchwood.NewCosignatureSigner("witness.example/mirror", mirKey)
	rs, _ := torchwood.NewCosignatureSigner("witness.example/w", rogue)
	rm, _ := torchwood.NewCosignatureSigner("witness.example/mirror", rogue)
	c20.verifier["vkey-w"] = ws.Verifier()
	c20.verifier["vkey-m"] = ms.Verifier()
	origin := "log.example/mirrored"
	hash := witness.OriginHash(origin)
	dir := hash
	if broken == 2 {
		dir = witness.OriginHash("log.example/other")
	}
	// the log's tree
	var stored c20Hashes
	for i := 0; i < size; i++ {
		hs, err := tlog.StoredHashes(int64(i), []byte{'e', byte(i)}, stored)
		if err != nil {
			panic(err)
		}
		stored = append(stored, hs...)
	}
	root, err := tlog.TreeHash(int64(size), stored)
	if err != nil {
		panic(err)
	}
	text := torchwood.Checkpoint{Origin: origin, Tree: tlog.Tree{N: int64(size), Hash: root}}.String()
	pendingFS := &memFS{files: map[string][]byte{"witness.v0.json": []byte("vkey-w")}}
	mainFS := pendingFS
	signer := ws
	if broken == 1 && mirror == 0 {
		signer = rs
	}
	if mirror == 1 {
		mainFS = &memFS{files: map[string][]byte{"mirror.v0.json": []byte("vkey-m")}}
		msigner := ms
		if broken == 1 {
			msigner = rm
		}
		cp, err := note.Sign(&note.Note{Text: text}, msigner)
		if err != nil {
			panic(err)
		}
		mainFS.files[dir+"/checkpoint"] = cp
		for _, t := range tlog.NewTiles(torchwood.TileHeight, 0, int64(size)) {
			d, err := tlog.ReadTileData(t, stored)
			if err != nil {
				panic(err)
			}
			mainFS.files[dir+"/"+torchwood.TilePath(t)] = d
		}
		// the right-edge tiles: for every set bit k of size, the stored tile that holds the hash of the
		// complete subtree of height k ending the tree at that bit (computed here from the binary
		// decomposition, not with torchwood.RightEdge)
		var edges []string
		for k, off := 62, int64(0); k >= 0; k-- {
			if int64(size)&(1<<k) == 0 {
				continue
			}
			n := off >> k
			off += 1 << k
			L := k / torchwood.TileHeight
			N := (n << (k % torchwood.TileHeight)) >> torchwood.TileHeight
			for _, t := range tlog.NewTiles(torchwood.TileHeight, 0, int64(size)) {
				if t.L == L && t.N == N {
					p := dir + "/" + torchwood.TilePath(t)
					dup := false
					for _, e := range edges {
						dup = dup || e == p
					}
					if !dup {
						edges = append(edges, p)
					}
				}
			}
		}
		edge := edges[0]
		if len(edges) > 1 {
			edge = edges[verifConcretize(verifChoice("edge-tile", len(edges)))]
		}
		switch broken {
		case 3:
			d := append([]byte{}, mainFS.files[edge]...)
			pos := verifConcretize(verifChoice("tile-byte", len(d)))
			b := verifNondetByte("tile-value")
			verifAssume(b != d[pos])
			d[pos] = b
			mainFS.files[edge] = d
		case 4:
			delete(mainFS.files, edge)
		}
		pendingN := int64(size)
		if broken == 5 {
			pendingN = int64(size) - 1
		}
		pOrigin := origin
		if broken == 7 {
			pOrigin = "log.example/other"
		}
		pRoot, _ := tlog.TreeHash(pendingN, stored)
		pText := torchwood.Checkpoint{Origin: pOrigin, Tree: tlog.Tree{N: pendingN, Hash: pRoot}}.String()
		psigner := ws
		if broken == 6 {
			psigner = rs
		}
		pcp, err := note.Sign(&note.Note{Text: pText}, psigner)
		if err != nil {
			panic(err)
		}
		pendingFS.files[hash+"/checkpoint"] = pcp
	} else {
		cp, err := note.Sign(&note.Note{Text: text}, signer)
		if err != nil {
			panic(err)
		}
		mainFS.files[dir+"/checkpoint"] = cp
	}
	r, pr := new(os.Root), new(os.Root)
	c20.roots[r], c20.roots[pr] = mainFS, pendingFS
	wh := &witnessHealth{root: r, mirror: mirror == 1}
	if mirror == 1 {
		wh.pendingRoot = pr
	}
	if err := wh.loadVerifiers(); err != nil {
		panic("loadVerifiers failed")
	}
	hs, err := wh.hashes()
	verifAssert(err == nil && len(hs) == 1 && hs[0] == dir, "the origin-hash directories are not enumerated")
	got, cerr := wh.check(context.Background(), dir)
	if broken == 0 {
		verifReach("healthy")
		verifAssert(cerr == nil && got == origin, "a healthy witness or mirror directory is reported as failing")
		return
	}
	verifReach("unhealthy")
	verifAssert(cerr != nil, "green although a condition is violated")
	if broken >= 2 {
		verifAssert(got == origin, "the failure does not name the log")
	}
}
