//go:build verif

package main

import (
	"context"
	"crypto/ecdsa"
	"io/fs"
	"net/http"
	"net/url"
	"os"
	"strings"
	"time"

	"golang.org/x/mod/sumdb/tlog"
)

// ---------------------------------------------------------------------------
// C19 — the read-path server serves exactly the stored objects with correct metadata
// (the part that is Go source of this repository: per-route headers and dispatch, prefix handling
// for witness/mirror trees, directory hiding; confinement and byte-exact serving are provided by
// os.Root and net/http.FileServerFS and are outside the claim)
// ---------------------------------------------------------------------------

type c19RW struct {
	h    http.Header
	code int
	body []byte
}

func (w *c19RW) Header() http.Header { return w.h }
func (w *c19RW) WriteHeader(c int)   { w.code = c }
func (w *c19RW) Write(b []byte) (int, error) {
	w.body = append(w.body, b...)
	return len(b), nil
}

// c19Sink is the file handler stand-in: it records what reaches it.
type c19Sink struct {
	name    string
	calls   int
	path    string
	kind    string
	headers http.Header
	prefix  string
}

func (s *c19Sink) ServeHTTP(w http.ResponseWriter, r *http.Request) {
	s.calls++
	s.path = r.URL.Path
	s.kind = kindFromContext(r.Context())
	s.prefix = filePrefixFromContext(r.Context())
	s.headers = w.Header().Clone()
}

func c19Request(path string) (*http.Request, *c19RW, *c19Sink, *c19Sink) {
	limited, unlimited := &c19Sink{name: "rate-limited"}, &c19Sink{name: "unlimited"}
	ctx := context.WithValue(context.Background(), rateLimitedHandlerContextKey{}, http.Handler(limited))
	ctx = context.WithValue(ctx, unlimitedHandlerContextKey{}, http.Handler(unlimited))
	r := (&http.Request{Method: "GET", URL: &url.URL{Path: path}, Header: http.Header{}}).WithContext(ctx)
	return r, &c19RW{h: http.Header{}}, limited, unlimited
}

// VerifC19Tile: the tile route for every layout path: kind 0 hash tile (symbolic level digit), 1 data,
// 2 names, 3 entries (witness/mirror layout); groups of symbolic digits; optional partial suffix.
func VerifC19Tile(kind, groups, partial int) {
	h := verifBindHandler("main", "GET /tile/{tile...}", "")
	var seg string
	switch kind {
	case 0:
		seg = verifNondetString("level", 1)
		verifAssume(seg[0] >= '0' && seg[0] <= '9')
	case 1:
		seg = "data"
	case 2:
		seg = "names"
	default:
		seg = "entries"
	}
	p := seg + "/"
	for g := 0; g < groups; g++ {
		if g > 0 {
			p += "/"
		}
		if g < groups-1 {
			p += "x"
		}
		d := verifNondetString("digits", 3)
		for i := 0; i < 3; i++ {
			verifAssume(d[i] >= '0' && d[i] <= '9')
		}
		if g == 0 && groups > 1 {
			verifAssume(d != "000") // canonical paths have no leading zero group
		}
		p += d
	}
	if partial == 1 {
		w := verifNondetString("width", 1)
		verifAssume(w[0] >= '1' && w[0] <= '9')
		p += ".p/" + w
	}
	r, rw, limited, unlimited := c19Request("/tile/" + p)
	r.SetPathValue("tile", p)
	h(rw, r)
	verifAssert(limited.calls == 1 && unlimited.calls == 0, "a tile request is not dispatched exactly once to the rate-limited file handler")
	verifAssert(limited.path == "/tile/"+p, "the file handler is not asked for exactly the layout path")
	hd := limited.headers
	verifAssert(hd.Get("Access-Control-Allow-Origin") == "*", "missing CORS header")
	verifAssert(hd.Get("Cache-Control") == "public, max-age=604800, immutable", "tiles are not served with the immutable cache policy")
	gz := hd.Get("Content-Encoding") == "gzip" && len(hd.Values("Content-Encoding")) == 1
	switch kind {
	case 0:
		verifReach("hash tile")
		verifAssert(len(hd.Values("Content-Encoding")) == 0, "a hash tile is served with a content encoding")
		verifAssert(hd.Get("Content-Type") == "application/octet-stream", "a hash tile is not served as octet-stream")
	case 1, 3:
		verifReach("data tile")
		verifAssert(gz, "a data tile / entry bundle is not served with gzip content encoding")
		verifAssert(hd.Get("Content-Type") == "application/octet-stream", "a data tile is not served as octet-stream")
		if partial == 1 {
			verifAssert(limited.kind == "partial", "a partial data tile is not labelled partial")
		} else {
			verifAssert(limited.kind == "data", "a full data tile is not labelled data")
		}
	default:
		verifReach("names tile")
		verifAssert(gz, "a names tile is not served with gzip content encoding")
		verifAssert(hd.Get("Content-Type") == "application/jsonl; charset=utf-8", "a names tile is not served as JSON lines")
	}
}

// VerifC19Fixed: checkpoint, log.v3.json and issuer routes.
func VerifC19Fixed() {
	r, rw, limited, unlimited := c19Request("/checkpoint")
	verifBindHandler("main", "GET /checkpoint", "")(rw, r)
	verifAssert(unlimited.calls == 1 && limited.calls == 0 && unlimited.path == "/checkpoint", "checkpoint dispatch")
	verifAssert(unlimited.headers.Get("Cache-Control") == "no-store" && unlimited.headers.Get("Content-Type") == "text/plain; charset=utf-8", "checkpoints are not served as no-store text")
	verifAssert(len(unlimited.headers.Values("Content-Encoding")) == 0, "a checkpoint carries a content encoding")

	r, rw, limited, unlimited = c19Request("/log.v3.json")
	verifBindHandler("main", "GET /log.v3.json", "")(rw, r)
	verifAssert(unlimited.calls == 1 && limited.calls == 0 && unlimited.path == "/log.v3.json", "metadata dispatch")
	verifAssert(unlimited.headers.Get("Content-Type") == "application/json", "log.v3.json is not served as JSON")

	fp := verifNondetString("fingerprint", 4)
	r, rw, limited, unlimited = c19Request("/issuer/" + fp)
	r.SetPathValue("issuer", fp)
	verifBindHandler("main", "GET /issuer/{issuer}", "")(rw, r)
	verifAssert(limited.calls == 1 && unlimited.calls == 0 && limited.path == "/issuer/"+fp, "issuer dispatch")
	verifAssert(limited.headers.Get("Content-Type") == "application/pkix-cert" && limited.headers.Get("Cache-Control") == "public, max-age=604800, immutable", "issuers are not served as immutable pkix-cert")
	verifReach("checked")
}

// VerifC19Witness: the witness and mirror routes strip exactly prefix + origin and record the origin
// as the file prefix, so that the file handler is asked for the path the URL names.
func VerifC19Witness(mirror int) {
	limited, unlimited := http.Handler(&c19Sink{name: "rate-limited"}), http.Handler(&c19Sink{name: "unlimited"})
	inner := &c19Sink{name: "logMux"}
	logMux := http.NewServeMux()
	logMux.Handle("/", inner)
	prefix := &url.URL{Host: "witness.example", Path: "/w"}
	capped := func(origin, pfx string) string { return origin }
	pattern, base := "/{origin}/", "/w/"
	if mirror == 1 {
		pattern, base = "/mirror/{origin}/", "/w/mirror/"
	}
	h := verifBindHandler("main", pattern, "cappedOrigin,rateLimitedHandler,unlimitedHandler,prefix,logMux", &capped, &limited, &unlimited, &prefix, &logMux)
	origin := "0123abcd"
	rest := "/tile/0/" + []string{"000", "123", "x001/000", "255.p/17"}[verifConcretize(verifChoice("path", 4))]
	r := &http.Request{Method: "GET", URL: &url.URL{Path: base + origin + rest}, Header: http.Header{}}
	r.SetPathValue("origin", origin)
	rw := &c19RW{h: http.Header{}}
	h(rw, r)
	verifAssert(inner.calls == 1 && inner.path == rest, "the log routes do not see the path below the origin")
	want := "/" + origin
	if mirror == 1 {
		want = "/mirror/" + origin
	}
	verifAssert(inner.prefix == want, "the origin directory is not re-attached for the file handler")
	verifReach("checked")
}

// VerifC19FilesOnly: filesOnlyFS never returns a directory and passes files and errors through.
func VerifC19FilesOnly() {
	m := &memFS{files: map[string][]byte{"checkpoint": []byte("cp"), "tile/0/000": []byte("t")}}
	f := filesOnlyFS{m}
	name := []string{"checkpoint", "tile", "tile/0", "tile/0/000", ".", "missing", "tile/0/001"}[verifConcretize(verifChoice("name", 7))]
	file, err := f.Open(name)
	_, isFile := m.files[name]
	if isFile {
		verifReach("file")
		verifAssert(err == nil && file != nil, "a regular file is not served")
		st, _ := file.Stat()
		verifAssert(!st.IsDir(), "a directory is returned")
	} else {
		verifReach("refused")
		verifAssert(err != nil && file == nil, "a directory or a missing path is served")
		verifAssert(errorsIsNotExist(err), "a hidden directory is not reported as not found")
	}
}

func errorsIsNotExist(err error) bool {
	pe, ok := err.(*fs.PathError)
	return ok && pe.Err == fs.ErrNotExist
}

// VerifC20Health: the /health handler's aggregation over two logs (A regular, B staging) and an
// optional witness directory: 200 exactly when every non-staging entry is healthy or sunset, and
// every failure line names the log.
func VerifC20Health(withWitness int) {
	c20.roots = map[*os.Root]*memFS{}
	c20.keys = map[string]*ecdsa.PrivateKey{}
	c20.infos = map[string]logInfo{}
	c20.sinceBy = map[int64]time.Duration{}
	roots := map[LogConfig]*os.Root{}
	var root tlog.Hash
	healthy := map[string]bool{}
	for i, name := range []string{"alpha", "beta"} {
		key := verifNewECDSAKey()
		c20.keys["der-"+name] = key
		ts := int64(1_700_000_000_000 + i)
		signKey := key
		ok := true
		if verifNondetBool(name + "-wrong-key") {
			signKey = verifNewECDSAKey()
			ok = false
		}
		stale := verifNondetBool(name + "-stale")
		if stale {
			ok = false
		}
		fsys := &memFS{files: map[string][]byte{"log.v3.json": []byte(name)}}
		fsys.files["checkpoint"] = c20SignLog("log.example/"+name, signKey, 5, root, ts)
		li := logInfo{Name: "log.example/" + name, PublicKeyDER: []byte("der-" + name)}
		li.Interval.NotAfterLimit = name
		c20.infos[name] = li
		c20.limits = append(c20.limits, time.UnixMilli(int64(1000+i)))
		c20.sinceBy[int64(1000+i)] = -time.Hour
		if stale {
			c20.sinceBy[ts] = 6 * time.Second
		} else {
			c20.sinceBy[ts] = time.Second
		}
		r := new(os.Root)
		c20.roots[r] = fsys
		roots[LogConfig{ShortName: name, Staging: name == "beta"}] = r
		healthy[name] = ok
	}
	var witnessChecks []witnessHealth
	witnessOK := true
	_ = withWitness
	h := verifBindHandler("main", "/health", "roots,witnessChecks", &roots, &witnessChecks)
	r, rw, _, _ := c19Request("/health")
	h(rw, r)
	body := string(rw.body)
	wantOK := healthy["alpha"] && witnessOK
	if wantOK {
		verifReach("green")
		verifAssert(rw.code == http.StatusOK, "health is red although every non-staging entry is healthy")
	} else {
		verifReach("red")
		verifAssert(rw.code == http.StatusInternalServerError, "health is green although a non-staging log is unhealthy")
		verifAssert(strings.Contains(body, "alpha: ") && !strings.Contains(body, "alpha: OK"), "the failure does not name the log")
	}
	if !healthy["beta"] {
		verifAssert(strings.Contains(body, "beta: ") && strings.Contains(body, "(ignored)"), "a failing staging log is not reported as ignored")
	}
}
